"""C08 — the block store is a verified, gap-free, append-only chain (engines K + M).

K (Kani, real engine/src/block_store.rs path-included): try_push / update_persisted / truncate_cache / block lookup /
persister selection from an arbitrary invariant-satisfying store with cache lengths 0..3 (and a derived copy with
CACHE_CAPACITY = 2 for the eviction loop) — see kani/harnesses.json.
M (mirsym, real MIR):
 (1) the same three operations at the REAL capacity boundary: cache lengths 99..102 (quick: 100, 101), block numbers,
     ranges and the persisted head symbolic, including an empty durable store; representation invariant I =
     { persisted.next <= queued.next; cache = the last `len` numbers of the queued range; cache[0] <= persisted.next
     (every queued block is in the cache or durable); empty range <=> last = None } is re-established, try_push appends
     iff the number is exactly queued.next and never changes existing entries, update_persisted never shrinks the
     durable range and resets the queue exactly when persistence overtook it;
 (2) EngineManager::queue_block (coroutine): try_push is reached only on paths where the block passed verification —
     pre-genesis: number < genesis.first_block AND the execution layer accepted it; finalized: the epoch schedule is
     known AND FinalBlock::verify returned Ok (its contract is decided in C04) — and only after the queue reached the
     block's number.
Outside: interleavings of concurrent callers with the background tasks (serialised by the watch lock), restart.
"""
import time
import z3
from mirsym.core import (Exec, explore, solve, Num, Agg, Ref, Cell, Opaque, Panic, Unmodelled, num_cmp, to_z3_bool, UNIT)
from mirsym import env, models as M
from mirsym.models import some, none, ok, err, ready, pending, BoxV, VecV, MapV, deref_all
from mirsym.mk import Mk, fld, variant_name
from framework import Obligation, Violation
from props import coro, c02
from props.coro import EnvFuture, CANCELED
from props.c11 import panic_key

PROP = 'C08'
ENG = 'zksync_consensus_engine'
V = c02.V
BS = r'zksync_consensus_engine::block_store::'
LIM = 2 ** 62


def zb(x): return to_z3_bool(x)


class Store:
    """arbitrary block store satisfying the representation invariant, cache length L"""
    def __init__(self, ex, db, L):
        mk = Mk(db, ENG); self.mk = mk; self.L = L
        self.pf = ex.fresh('pf'); self.pn = ex.fresh('pn'); self.qf = ex.fresh('qf'); self.qn = ex.fresh('qn')
        pf, pn, qf, qn = self.pf.e, self.pn.e, self.qf.e, self.qn.e
        ex.assume(z3.And(pf <= pn, qf <= qn, pn <= qn, pf <= qf, qn < LIM, qn - L >= 0, qn - L <= pn))
        self.blocks = [self.block(ex, Num(qn - L + i, 64), f'c{i}') for i in range(L)]
        def rng(first, nxt, tag):
            # an empty range is stored as last = None, or (after pruning) as last = first - 1;
            # queued.last = None means nothing was pushed since the queue was (re)created, so the cache is empty then
            if ex.branch(nxt.e == first.e) and not (tag == 'q' and L > 0) and (ex.choose(2, f'{tag}_empty_repr') == 0 or not ex.branch(nxt.e >= 1)):
                last = none()
            else:
                last = some(mk.adt(BS + 'Last', 'PreGenesis', _0=mk.tuple_struct(V + r'block::BlockNumber', Num(nxt.e - 1, 64))))
            return mk.adt(BS + 'BlockStoreState', first=mk.tuple_struct(V + r'block::BlockNumber', first), last=last)
        self.queued = rng(self.qf, self.qn, 'q'); self.persisted = rng(self.pf, self.pn, 'p')
        if L > 0: pass
        self.value = mk.adt(BS + 'BlockStore', queued=self.queued, persisted=self.persisted, cache=VecV(list(self.blocks), 'deque'))
        self.cell = Cell(self.value)

    def block(self, ex, number, tag):
        mk = self.mk
        pg = mk.adt(V + r'block::PreGenesisBlock', number=mk.tuple_struct(V + r'block::BlockNumber', number), payload=Opaque(('payload', tag)), justification=Opaque(('just', tag)))
        return mk.adt(V + r'block::Block', 'PreGenesis', _0=pg)


def state_view(ex, st):
    """(first, next) expressions of a BlockStoreState value"""
    first = fld(fld(st, 'first'), '0')
    last = fld(st, 'last')
    if last.variant == 0: return first.e, first.e, True
    l = last.fields[0]
    num = fld(l.fields[0], '0') if variant_name(l) == 'PreGenesis' else None
    if num is None: raise Unmodelled('Last::FinalV2 in post-state')
    return first.e, num.e + 1, False


def block_number(b):
    return fld(fld(b.fields[0], 'number'), '0')


def invariant(ex, store_val, cap=100):
    qf, qn, qe = state_view(ex, fld(store_val, 'queued')); pf, pn, pe = state_view(ex, fld(store_val, 'persisted'))
    cache = fld(store_val, 'cache').items
    L = len(cache)
    conds = [pf <= pn, qf <= qn, pn <= qn, pf <= qf, qn - L >= 0, qn - L <= pn]
    if qe: conds.append(z3.BoolVal(L == 0))
    for i, b in enumerate(cache):
        conds.append(block_number(b).e == qn - L + i)
    return z3.And(*conds), (qf, qn, pf, pn, L)


def install(ex):
    env.install(ex); env.install_ideal_crypto(ex); coro.install_futures(ex)


def check_ops(rep, db, L):
    viol = []; total = 0
    # ---- try_push
    ex = Exec(db, loop_bound=L + 8); install(ex)
    def body(ex):
        s = Store(ex, db, L)
        n = ex.fresh('n'); ex.assume(n.e < LIM)
        blk = s.block(ex, n, 'new')
        r = ex.call_by_name(BS + r'BlockStore::try_push', [Ref(s.cell), blk])
        return s, n, blk, r
    res = explore(ex, body, budget_s=900); rep.absorb_stats(ex.stats); total += len(res)
    for kind, val, pc, log in res:
        if kind == 'panic':
            st, m = solve(pc, None)
            if st == 'sat': viol.append((panic_key(val), f'BlockStore::try_push panics: {val[0]} at {val[1]} (cache length {L})', m))
            continue
        s, n, blk, r = val; rep.nontrivial += 1
        inv, (qf, qn, pf, pn, L2) = invariant(ex, s.cell.v)
        cache = fld(s.cell.v, 'cache').items
        pushed = zb(r)
        kept = [b for b in s.blocks if any(b is c for c in cache)]
        evicted = len(s.blocks) - len(kept)
        good = z3.And(inv, pushed == (n.e == s.qn.e), pf == s.pf.e, pn == s.pn.e,
                      z3.If(pushed, z3.And(qn == s.qn.e + 1, z3.BoolVal(len(cache) >= 1 and cache[-1] is blk)), z3.And(qn == s.qn.e, z3.BoolVal(len(cache) == L and all(a is b for a, b in zip(cache, s.blocks))))),
                      z3.BoolVal([b for b in cache if b is not blk] == kept[-(len(cache) - (1 if any(c is blk for c in cache) else 0)) or len(kept):] if cache else True))
        st, m = solve(pc, z3.Not(good))
        if st == 'sat': viol.append(('try_push', f'BlockStore::try_push from an invariant-satisfying store (cache length {L}): does not append exactly the next block, changes existing entries, or breaks the invariant (a queued block neither cached nor durable)', m))
        elif st != 'unsat': raise Unmodelled('solver unknown')
    # ---- update_persisted
    ex = Exec(db, loop_bound=L + 8); install(ex)
    def body2(ex):
        s = Store(ex, db, L)
        nf = ex.fresh('nf'); nn = ex.fresh('nn'); ex.assume(z3.And(nf.e <= nn.e, nn.e < LIM))
        mk = s.mk
        if ex.branch(nn.e == nf.e): last = none()
        else: last = some(mk.adt(BS + 'Last', 'PreGenesis', _0=mk.tuple_struct(V + r'block::BlockNumber', Num(nn.e - 1, 64))))
        newp = mk.adt(BS + 'BlockStoreState', first=mk.tuple_struct(V + r'block::BlockNumber', nf), last=last)
        r = ex.call_by_name(BS + r'BlockStore::update_persisted', [Ref(s.cell), newp])
        return s, nf, nn, r
    res = explore(ex, body2, budget_s=900); rep.absorb_stats(ex.stats); total += len(res)
    for kind, val, pc, log in res:
        if kind == 'panic':
            st, m = solve(pc, None)
            if st == 'sat': viol.append((panic_key(val), f'BlockStore::update_persisted panics: {val[0]} at {val[1]} (cache length {L})', m))
            continue
        s, nf, nn, r = val; rep.nontrivial += 1
        if r.variant == 1:
            good = z3.And(nn.e < s.pn.e)
            st, m = solve(pc, z3.Not(good))
            if st == 'sat': viol.append(('update_persisted', f'update_persisted rejects a durable range that did not shrink (cache length {L})', m))
            continue
        # callers pass ranges reported by the persistence layer: the head never moves back and first only grows with pruning
        inv, (qf, qn, pf, pn, L2) = invariant(ex, s.cell.v)
        pre_ok = z3.And(nn.e >= s.pn.e, nf.e >= s.pf.e)
        overtook = nn.e > s.qn.e
        good = z3.Implies(pre_ok, z3.And(inv, pn == nn.e, pf == nf.e, pn >= s.pn.e,
                                         z3.If(overtook, z3.And(qn == nn.e, z3.BoolVal(L2 == 0)), z3.And(qn == s.qn.e))))
        st, m = solve(pc, z3.Not(good))
        if st == 'sat': viol.append(('update_persisted', f'update_persisted (cache length {L}): shrinks the durable range, leaves a gap, does not reset the queue exactly when persistence overtook it, or breaks the invariant', m))
        elif st != 'unsat': raise Unmodelled('solver unknown')
    # ---- truncate_cache
    ex = Exec(db, loop_bound=L + 8); install(ex)
    def body3(ex):
        s = Store(ex, db, L)
        ex.call_by_name(BS + r'BlockStore::truncate_cache', [Ref(s.cell)])
        return s
    res = explore(ex, body3, budget_s=900); rep.absorb_stats(ex.stats); total += len(res)
    for kind, val, pc, log in res:
        if kind == 'panic':
            st, m = solve(pc, None)
            if st == 'sat': viol.append((panic_key(val), f'BlockStore::truncate_cache panics: {val[0]} at {val[1]} (cache length {L})', m))
            continue
        s = val; rep.nontrivial += 1
        inv, (qf, qn, pf, pn, L2) = invariant(ex, s.cell.v)
        cache = fld(s.cell.v, 'cache').items
        k = L - L2      # evicted from the front
        suffix = all(a is b for a, b in zip(cache, s.blocks[k:]))
        # evicted blocks were durable; eviction stops at the capacity or at the first non-durable block
        good = z3.And(inv, z3.BoolVal(suffix), qn == s.qn.e, pn == s.pn.e,
                      z3.BoolVal(k == 0) if L <= 100 else z3.And(z3.BoolVal(L2 >= 100), z3.Or(z3.BoolVal(L2 == 100), s.pn.e <= s.qn.e - L2)))
        st, m = solve(pc, z3.Not(good))
        if st == 'sat': viol.append(('truncate_cache', f'truncate_cache (cache length {L}): evicts a block that is not durable yet, evicts below the capacity, or keeps more than the capacity of durable blocks', m))
        elif st != 'unsat': raise Unmodelled('solver unknown')
    return viol, total


def check_queue_block(rep, db):
    ex = Exec(db, loop_bound=12); install(ex)
    log_holder = [None]
    mk = Mk(db, ENG)
    key = db.find_one(r'zksync_consensus_engine::manager::EngineManager::queue_block', kinds=('fn',))

    def pregenesis(e, n, a):
        def respond(e2):
            if e2.choose(2, 'pregenesis_verify') == 0: log_holder[0].append(('pregenesis_ok',)); return ready(ok(UNIT))
            log_holder[0].append(('pregenesis_err',)); return ready(err(Opaque('ctx::Error')))
        return EnvFuture('verify_pregenesis_block', respond)
    ex.model(r'.*EngineInterface.*::verify_pregenesis_block(::<.*>)?', pregenesis)
    ex.model(r'.*metrics.*|vise::.*|<vise::.*', lambda e, n, a: Opaque('metrics'))

    def final_verify(e, n, a):
        okv = e.choose(2, 'final_verify') == 0
        log_holder[0].append(('final_ok',) if okv else ('final_err',))
        return ok(UNIT) if okv else err(Opaque('BlockValidationError'))
    ex.model_path('zksync_consensus_roles::validator::messages::v2::block::FinalBlock::verify', final_verify)
    ex.model_path('zksync_consensus_roles::validator::messages::genesis::Genesis::hash', lambda e, n, a: Opaque('genesis_hash'))

    def try_push_hook(e, n, a):
        log_holder[0].append(('try_push', a[1])); return NotImplemented
    ex.model_path('zksync_consensus_engine::block_store::BlockStore::try_push', try_push_hook)
    ex.model(r'(tokio|zksync_concurrency)::sync::watch::Sender::<.*>::send_if_modified(::<.*>)?', lambda e, n, a: e.call_closure(a[1], [Ref(deref_all(a[0]).cell)]))
    ex.model(r'(tokio|zksync_concurrency)::sync::watch::Sender::<.*>::borrow', lambda e, n, a: coro.WatchRef(deref_all(a[0])))
    ex.model(r'<(tokio|zksync_concurrency)::sync::watch::Ref<.*> as std::ops::Deref>::deref', lambda e, n, a: Ref(deref_all(a[0]).watch.cell))

    def body(ex):
        log = []; log_holder[0] = log
        s = Store(ex, db, 1)
        first_block = ex.fresh('genesis_first_block'); ex.assume(first_block.e < LIM)
        mkr = Mk(db, ENG)
        gen_t = mkr.ty(r'zksync_consensus_roles::validator::messages::genesis::Genesis')
        raw_t = mkr.ty(r'zksync_consensus_roles::validator::messages::genesis::GenesisRaw')
        raw = Agg('adt', raw_t, 0, [Opaque(f['name']) if f['name'] != 'first_block' else mkr.tuple_struct(V + r'block::BlockNumber', first_block) for f in raw_t['info']['variants'][0]['fields']])
        genesis = Agg('adt', gen_t, 0, [raw, Opaque('genesis_hash')])
        have_sched = ex.choose(2, 'epoch_schedule_known') == 0
        sched_entries = []
        epoch = ex.fresh('epoch')
        if have_sched:
            swl = mk.adt(r'zksync_consensus_engine::manager::ScheduleWithLifetime', schedule=Opaque('schedule'), activation_block=mkr.tuple_struct(V + r'block::BlockNumber', Num(0, 64)), expiration_block=none())
            sched_entries.append((mkr.tuple_struct(V + r'consensus::EpochNumber', epoch), swl))
        store_watch = M.WatchV(s.value)
        em = mk.adt(r'zksync_consensus_engine::manager::EngineManager', interface=BoxV(Opaque('engine_interface')), genesis=genesis, block_store=store_watch,
                    epoch_schedule=M.WatchV(MapV(sched_entries, True)), fetch_schedule_interval=Opaque('d'), tx_pool=Opaque('tx_pool'))
        n = ex.fresh('n'); ex.assume(n.e < LIM)
        if ex.choose(2, 'block_kind') == 0:
            blk = s.block(ex, n, 'new'); kindb = 'pregenesis'
        else:
            qc_msg = mkr.adt(V + r'v2::replica_commit::ReplicaCommit', view=mkr.adt(V + r'v2::consensus::View', genesis=Opaque('g'), number=mkr.tuple_struct(V + r'consensus::ViewNumber', ex.fresh('v')), epoch=mkr.tuple_struct(V + r'consensus::EpochNumber', epoch if ex.choose(2, 'same_epoch') == 0 else ex.fresh('other_epoch'))),
                             proposal=mkr.adt(V + r'v2::block::BlockHeader', number=mkr.tuple_struct(V + r'block::BlockNumber', n), payload=Opaque('ph')))
            qc = mkr.adt(V + r'v2::replica_commit::CommitQC', message=qc_msg, signers=mkr.tuple_struct(V + r'v2::consensus::Signers', M.BitVecV([True])), signature=Opaque('sig'))
            fb = mkr.adt(V + r'v2::block::FinalBlock', payload=Opaque('payload'), justification=qc)
            blk = mkr.adt(V + r'block::Block', 'FinalV2', _0=fb); kindb = 'final'
        r = coro.run_async(ex, key, [Ref(Cell(em)), Ref(Cell(Opaque('ctx'))), blk])
        return s, n, first_block, kindb, r, log, store_watch
    res = explore(ex, body, budget_s=900); rep.absorb_stats(ex.stats)
    viol = []
    for kind, val, pc, lg in res:
        if kind == 'panic':
            st, m = solve(pc, None)
            if st == 'sat': viol.append((panic_key(val), f'queue_block panics: {val[0]} at {val[1]}', m))
            continue
        s, n, first_block, kindb, r, log, watch = val; rep.nontrivial += 1
        evs = [e[0] for e in log]
        if 'try_push' in evs:
            if kindb == 'pregenesis':
                verified = 'pregenesis_ok' in evs[:evs.index('try_push')]
                cond = z3.And(z3.BoolVal(verified), n.e < first_block.e)
            else:
                cond = z3.BoolVal('final_ok' in evs[:evs.index('try_push')])
            cond = z3.And(cond, s.qn.e >= n.e)
            st, m = solve(pc, z3.Not(cond))
            if st == 'sat': viol.append((f'queue-unverified:{kindb}', f'queue_block pushes a {kindb} block into the store that did not pass verification (pre-genesis: number < genesis.first_block and accepted by the execution layer; finalized: certificate verified under the epoch schedule), or before the queue reached it', m))
            elif st != 'unsat': raise Unmodelled('solver unknown')
        elif r != 'pending' and r.variant == 0:
            viol.append(('queue-silent-drop', 'queue_block returned Ok without offering the block to the store', None))
    return viol, len(res)


def witness(m):
    if m is None: return ''
    return 'witness: ' + ', '.join(f'{d.name()}={m[d]}' for d in sorted(m.decls(), key=lambda d: d.name()) if d.arity() == 0 and '!' not in d.name())[:500]


def run(rep, db, tier, seed):
    rep.engines.append('mirsym (MIR symbolic execution + z3)')
    rep.trusted += M.TRUSTED + env.TRUSTED + ['VecDeque = python list; blocks are PreGenesis blocks with opaque payloads (identity = python object)', 'FinalBlock::verify summarised by its contract (C04); EngineInterface::verify_pregenesis_block returns Ok/Err arbitrarily']
    rep.assumptions += ['each call is atomic under the tokio watch lock; interleavings with the persister / truncation tasks and restart are outside']
    Ls = [0, 1, 2, 100, 101] if tier == 'quick' else [0, 1, 2, 3, 99, 100, 101, 102]
    rep.bounds = dict(cache_lengths=Ls, block_numbers='symbolic < 2^62', queue_block='store with 1 cached block, pre-genesis and finalized blocks', persist_task='2 (quick) / 3 (thorough) loop iterations from queue_next = 0, arbitrary store (cache 0..2) at every wait')
    seen = {}
    def handle(name, fn, *a):
        t0 = time.time()
        try:
            viol, n = fn(rep, db, *a)
            for key, text, m in viol:
                if key in seen: continue
                seen[key] = 1
                rep.violation(Violation(PROP, key, text + ' | ' + witness(m), None, None))
            rep.add(Obligation(name, 'violated' if viol else 'discharged', paths=n, wall_s=round(time.time() - t0, 1)))
            if len(rep.samples) < 8: rep.samples.append(f'{name}: {n} feasible paths')
        except Unmodelled as u:
            rep.add(Obligation(name, 'inconclusive', str(u)[:600]))
    for L in Ls:
        handle(f'try_push / update_persisted / truncate_cache, cache length {L}', check_ops, L)
    handle('queue_block verifies before pushing', check_queue_block)
    # hand-over to durable storage: the persisting task of EngineManagerRunner::run, from its initial state
    try:
        from props import c08_persist
        c08_persist.run(rep, db, tier)
    except Exception as u:
        rep.add(Obligation('persist task: blocks handed to storage in order, without gaps or repeats', 'inconclusive', f'{type(u).__name__}: {u}'[:600]))
    # a block supplied by a peer must carry the requested number and pass queue verification before the request completes
    try:
        from props import c19_runner
        c19_runner.run(rep, db, tier)
    except Exception as u:
        rep.add(Obligation('per-request fetch task', 'inconclusive', f'{type(u).__name__}: {u}'[:600]))
    from props import kani_part
    kani_part.run(rep, PROP, tier)
    rep.extra['explanation'] = 'one operation from an arbitrary invariant-satisfying store: Kani on the real file for small caches, MIR execution at the real capacity boundary and for the verification-before-queueing order of queue_block'
