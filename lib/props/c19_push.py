"""C19 — what the node believes a peer stores is the peer's LATEST announcement: the `push_block_store_state` handler of a gossip
connection (`<&PushServer as rpc::Handler<push_block_store_state::Rpc>>::handle`, gossip/runner.rs) executed on its real MIR from an
arbitrary previously announced range and an arbitrary new announcement (first, last symbolic; last absent or a pre-genesis block
number). `Queue::accept_block` hands a request only to a peer whose announced range contains the block (decided in props/c19.py);
that is only as good as the range it reads. Obligations: an announcement that passes `BlockStoreState::verify` REPLACES the stored
range — whatever the relation between the two ranges: a peer that pruned old blocks (higher `first`, same `last`), or whose head
did not move, is believed too — and a refused announcement changes nothing."""
import time
import z3
from mirsym.core import (Exec, explore, solve, Num, Agg, Ref, Cell, Opaque, Unmodelled, BoundExceeded, num_cmp, to_z3_bool, UNIT)
from mirsym import env, models as M
from mirsym.models import some, none, ok, err, ready, BoxV, deref_all, values_equal
from mirsym.mk import Mk, fld
from props import coro, c02
from props.c11 import panic_key
import framework as F

NET = 'zksync_consensus_network'
V = c02.V


def mk_state(ex, mke, mkr, tag):
    first = ex.fresh(f'{tag}_first'); ex.assume(first.e < 2 ** 62)
    last = none(); lastn = None
    if ex.choose(2, f'{tag}_has_last') == 0:
        lastn = ex.fresh(f'{tag}_last'); ex.assume(lastn.e < 2 ** 62)
        last = some(mke.adt(r'zksync_consensus_engine::block_store::Last', 'PreGenesis', _0=mkr.tuple_struct(V + r'block::BlockNumber', lastn)))
    st = mke.adt(r'zksync_consensus_engine::block_store::BlockStoreState', first=mkr.tuple_struct(V + r'block::BlockNumber', first), last=last)
    return st, first, lastn


def run(rep, db, tier):
    name = 'push_block_store_state handler: a verified announcement replaces the range stored for the peer, a refused one changes nothing'
    t0 = time.time()
    ex = Exec(db, loop_bound=8)
    env.install(ex); coro.install_futures(ex)
    n_before = len(ex.user_models)
    def send_replace(e, n, a):
        wv = deref_all(a[0]); old = wv.cell.v; wv.cell.v = a[1]; wv.version += 1; return old
    ex.model(r'(tokio|zksync_concurrency)::sync::watch::Sender::<.*>::send_replace', send_replace)
    def send_if_modified(e, n, a):
        wv = deref_all(a[0]); r = e.call_closure(a[1], [Ref(wv.cell)])
        if e.branch(r): wv.version += 1
        return r
    ex.model(r'(tokio|zksync_concurrency)::sync::watch::Sender::<.*>::send_if_modified(::<.*>)?', send_if_modified)
    def send_modify(e, n, a):
        wv = deref_all(a[0]); e.call_closure(a[1], [Ref(wv.cell)]); wv.version += 1; return UNIT
    ex.model(r'(tokio|zksync_concurrency)::sync::watch::Sender::<.*>::send_modify(::<.*>)?', send_modify)
    def send(e, n, a):
        wv = deref_all(a[0]); wv.cell.v = a[1]; wv.version += 1; return ok(UNIT)
    ex.model(r'(tokio|zksync_concurrency)::sync::watch::Sender::<.*>::send', send)
    mine = ex.user_models[n_before:]; del ex.user_models[n_before:]; ex.user_models[0:0] = mine; ex._um_cache = {}
    mke = Mk(db, NET); mkr = Mk(db, NET)
    keys = [k for k in db.find(r"<&zksync_consensus_network::gossip::runner::PushServer<'_> as zksync_consensus_network::rpc::Handler<zksync_consensus_network::rpc::push_block_store_state::Rpc>>::handle", kinds=('fn', 'inst'))]
    if not keys:
        rep.add(F.Obligation(name, 'inconclusive', 'handler body not found in the dump')); return
    key = keys[0]
    ps_t = mke.ty(r'zksync_consensus_network::gossip::runner::PushServer')
    req_t = mke.ty(r'zksync_consensus_network::rpc::push_block_store_state::Req')

    def body(ex):
        old, ofirst, olast = mk_state(ex, mke, mkr, 'old')
        # the previously stored range is one the handler accepted earlier (or the initial empty range)
        if olast is not None: ex.assume(ofirst.e <= olast.e)
        new, nfirst, nlast = mk_state(ex, mke, mkr, 'new')
        watch = M.WatchV(old)
        fs = ps_t['info']['variants'][0]['fields']
        vals = {'blocks': watch}
        server = Agg('adt', ps_t, 0, [vals.get(f['name'], Opaque('ps_' + f['name'])) for f in fs])
        rfs = req_t['info']['variants'][0]['fields']
        if [f['name'] for f in rfs] != ['state']: raise Unmodelled(f'push_block_store_state::Req fields changed: {[f["name"] for f in rfs]}')
        req = Agg('adt', req_t, 0, [new])
        fut = ex.call_key(key, [Ref(Cell(Ref(Cell(server)))), Ref(Cell(Opaque('ctx'))), req])
        while isinstance(fut, Agg) and isinstance(fut.name, str) and fut.name.endswith('Pin') and fut.fields: fut = fut.fields[0]
        r = coro.poll_value(ex, fut if isinstance(fut, (Ref, BoxV)) else Ref(Cell(fut)))
        return r, old, new, watch.cell.v, (ofirst, olast, nfirst, nlast)
    try:
        res = explore(ex, body, budget_s=600)
    except (Unmodelled, BoundExceeded, KeyError) as u:
        rep.absorb_stats(ex.stats); rep.add(F.Obligation(name, 'inconclusive', f'{type(u).__name__}: {u}'[:700])); return
    rep.absorb_stats(ex.stats)
    viol = {}; accepted = 0
    for kind, val, pc, _ in res:
        if kind == 'panic':
            st, m = solve(pc, None)
            if st == 'sat': viol.setdefault('push-state:' + panic_key(val), (f'the push_block_store_state handler panics: {val[0]} at {val[1]}', m))
            continue
        r, old, new, post, syms = val
        if r.variant == 1: continue
        out = r.fields[0]
        is_ok = out.variant == 0
        want = new if is_ok else old
        if is_ok: accepted += 1; rep.nontrivial += 1
        same = to_z3_bool(values_equal(ex, post, want))
        st, m = solve(pc, z3.Not(same))
        if st == 'sat':
            k = 'push-state:announcement-not-stored' if is_ok else 'push-state:refused-announcement-stored'
            text = ('a verified announcement of a peer is accepted but the range stored for the peer is not the announced one (a peer that pruned blocks, or whose head did not move, keeps being asked for blocks it said it no longer has)'
                    if is_ok else 'an announcement that failed verification changed the range stored for the peer')
            viol.setdefault(k, (text, m))
        elif st != 'unsat':
            rep.add(F.Obligation(name, 'inconclusive', 'solver unknown')); return
    for k, (text, m) in viol.items():
        w = ', '.join(f'{d.name()}={m[d]}' for d in sorted(m.decls(), key=lambda d: d.name()) if d.arity() == 0 and '!' not in d.name())[:400] if m is not None else ''
        rep.violation(F.Violation(rep.prop, k, text + ' | witness: ' + w, None, None))
    if accepted == 0 and not viol:
        rep.add(F.Obligation(name, 'inconclusive', 'no path accepts an announcement (vacuous)')); return
    rep.add(F.Obligation(name, 'violated' if viol else 'discharged', paths=len(res), wall_s=round(time.time() - t0, 1)))
    rep.samples.append(f'push_block_store_state handler: {len(res)} paths, {accepted} accept the announcement')
