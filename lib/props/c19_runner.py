"""C19 — the per-request fetch task of a gossip connection (`gossip/runner.rs`, the async block spawned after
`fetch_queue.accept_block` in `Network::run_stream`), executed on its real MIR with the RPC call and the block store
answered by contract.
Obligations: the completion channel of the request is signalled only AFTER `EngineManager::queue_block` returned Ok for
the block received, and that block carries the requested number; on every other outcome (RPC error / timeout, empty
response, wrong number, queue_block error) the task ends WITHOUT signalling, so the channel is dropped and
`Queue::request` re-inserts the request (decided in props/c19.py)."""
import time
import z3
from mirsym.core import (Exec, explore, solve, Num, Agg, Ref, Cell, Opaque, Unmodelled, BoundExceeded, num_cmp, to_z3_bool, UNIT)
from mirsym import env, models as M
from mirsym.models import some, none, ok, err, ready, pending, BoxV, deref_all
from mirsym.mk import Mk, fld
from props import coro, c02
from props.coro import EnvFuture, CANCELED
from props.c11 import panic_key
import framework as F

NET = 'zksync_consensus_network'
V = c02.V
TASK = r'zksync_consensus_network::gossip::runner::<impl zksync_consensus_network::gossip::Network>::run_stream::\{closure#0\}::\{closure#0\}::\{closure#0\}::\{closure#4\}::\{closure#0\}'


class LazyStruct:
    """`&self` of a large struct: fields are materialised on first access from the type table — nested structs lazily,
    Option fields as a nondeterministic None / Some(opaque), integers symbolic, everything else an opaque handle."""
    def __init__(self, ex, db, crate, ty, path='self'):
        self.ex = ex; self.db = db; self.crate = crate; self.ty = ty; self.path = path; self.cache = {}

    def gen_inner(self, t, name, depth=0):
        """value of a std wrapper's type argument: Option / array / integer are materialised, anything else is opaque"""
        info = (t or {}).get('info', {}); disp = (t or {}).get('display', '')
        targs = [self.db.ty(self.crate, x['ty']) for x in info.get('args', []) if isinstance(x, dict) and 'ty' in x]
        if info.get('k') in ('uint', 'int'):
            return self.ex.fresh(name.replace('.', '_'), info.get('bits', 64))
        if info.get('k') == 'adt' and disp.startswith(('std::option::Option<', 'core::option::Option<')) and targs and depth < 3:
            if self.ex.choose(2, name + '_is_none') == 0: return none()
            return some(self.gen_inner(targs[0], name + '_some', depth + 1))
        if info.get('k') == 'array' and depth < 3:
            el = self.db.ty(self.crate, info.get('elem')) if info.get('elem') is not None else None
            n = info.get('len')
            if el is not None and isinstance(n, int) and n <= 8:
                from mirsym.models import VecV
                return VecV([self.gen_inner(el, f'{name}_{i}', depth + 1) for i in range(n)], 'array')
        return Opaque(name)

    def proj_field(self, i):
        if i in self.cache: return self.cache[i]
        f = self.ty['info']['variants'][0]['fields'][i]
        t = self.db.ty(self.crate, f['ty'])
        name = f'{self.path}.{f["name"]}'
        info = (t or {}).get('info', {})
        disp = (t or {}).get('display', '')
        if info.get('k') == 'adt' and disp.startswith(('std::sync::Mutex<', 'std::cell::RefCell<', 'std::cell::Cell<', 'std::sync::RwLock<')):
            targs = [self.db.ty(self.crate, x['ty']) for x in info.get('args', []) if isinstance(x, dict) and 'ty' in x]
            v = BoxV(self.gen_inner(targs[0], name) if targs else Opaque(name))
        elif info.get('k') == 'adt' and disp.startswith(('std::option::Option<', 'core::option::Option<')):
            v = none() if self.ex.choose(2, name + '_is_none') == 0 else some(Opaque(name))
        elif info.get('k') == 'adt' and len(info.get('variants', [])) == 1 and not disp.startswith(('std::', 'alloc::', 'core::', 'tokio::')) and info['variants'][0]['fields']:
            v = LazyStruct(self.ex, self.db, self.crate, t, name)
        elif info.get('k') in ('uint', 'int'):
            v = self.ex.fresh(name.replace('.', '_'), info.get('bits', 64))
        elif disp.startswith(('std::sync::Arc<', 'std::boxed::Box<')):
            v = BoxV(Opaque(name))
        else:
            v = Opaque(name)
        self.cache[i] = v
        return v

    def deref(self): return self
    def py_clone(self, ex): return self
    def __repr__(self): return f'LazyStruct({self.path})'


def run(rep, db, tier):
    name = 'per-request fetch task: success is signalled only after the block was queued'
    t0 = time.time()
    ex = Exec(db, loop_bound=10)
    env.install(ex); env.install_ideal_crypto(ex); coro.install_futures(ex)
    n_before = len(ex.user_models)
    cur = [None]
    mk = Mk(db, NET); mkr = Mk(db, 'zksync_consensus_roles')

    def rpc_call(e, n, a):
        def respond(e2):
            s = cur[0]
            c = e2.choose(4, 'rpc')
            if c == 0: s['log'].append(('rpc_err',)); return ready(err(Opaque('ctx::Error')))
            if c == 1: s['log'].append(('rpc_empty',)); return ready(ok(mk.tuple_struct(r'zksync_consensus_network::rpc::get_block::Resp', none())))
            num = e2.fresh('resp_number')
            pg = mkr.adt(V + r'block::PreGenesisBlock', number=mkr.tuple_struct(V + r'block::BlockNumber', num), payload=Opaque('payload'), justification=Opaque('just'))
            blk = mkr.adt(V + r'block::Block', 'PreGenesis', _0=pg)
            s['resp'] = (blk, num); s['log'].append(('rpc_block', num))
            return ready(ok(mk.tuple_struct(r'zksync_consensus_network::rpc::get_block::Resp', some(blk))))
        return EnvFuture('get_block call', respond)
    ex.model(r'zksync_consensus_network::rpc::ReservedCall::<.*>::call', rpc_call)

    def queue_block(e, n, a):
        blk = a[2]
        def respond(e2):
            s = cur[0]
            if e2.choose(2, 'queue_block_fails') == 0: s['log'].append(('queue_err', blk)); return ready(err(Opaque('ctx::Error')))
            s['log'].append(('queue_ok', blk)); return ready(ok(UNIT))
        return EnvFuture('queue_block', respond)
    ex.model_path('zksync_consensus_engine::manager::EngineManager::queue_block', queue_block)

    def signal(e, n, a):
        cur[0]['log'].append(('signal',)); return ok(UNIT)
    ex.model(r'(tokio::sync|zksync_concurrency)::oneshot::Sender::<.*>::send', signal)
    ex.model(r'zksync_concurrency::ctx::Ctx::(with_timeout|with_deadline)', lambda e, n, a: Opaque('ctx_with_timeout'))
    mine = ex.user_models[n_before:]; del ex.user_models[n_before:]
    ex.user_models[0:0] = mine; ex._um_cache = {}

    ks = db.find(TASK, kinds=('inst',))
    if len(ks) != 1:
        rep.add(F.Obligation(name, 'inconclusive', f'per-request task not found uniquely ({len(ks)} candidates): the structure of Network::run_stream changed')); return
    key = ks[0]
    net_t = mk.ty(r'zksync_consensus_network::gossip::Network')

    def body(ex):
        s = dict(log=[]); cur[0] = s
        want = ex.fresh('requested_number')
        req = mk.tuple_struct(r'zksync_consensus_network::rpc::get_block::Req', mkr.tuple_struct(V + r'block::BlockNumber', want))
        net = LazyStruct(ex, db, NET, net_t)
        # upvars of the spawned async block in capture order: (req, &self, &ctx, call, send_resp)
        co = Agg('coroutine', {'display': 'fetch task', 'info': {'k': 'coroutine', 'name': 'fetch task', 'resolved': {'key': key}}}, 0,
                 [req, Ref(Cell(net)), Ref(Cell(Opaque('ctx'))), Opaque('reserved_call'), Opaque('completion_sender')])
        co.vfields = {}; co.state = 0; co.body_key = key
        r = coro.poll_value(ex, Ref(Cell(co)))
        return r, want, list(s['log']), s.get('resp')
    try:
        res = explore(ex, body, budget_s=600)
    except (Unmodelled, BoundExceeded, KeyError) as u:
        rep.absorb_stats(ex.stats)
        rep.add(F.Obligation(name, 'inconclusive', f'{type(u).__name__}: {u}'[:700])); return
    rep.absorb_stats(ex.stats)
    viol = {}; signalled = 0

    def need(pc, k, text, cond):
        if k in viol: return
        st, m = solve(pc, z3.Not(cond))
        if st == 'sat': viol[k] = (text, m)
        elif st != 'unsat': raise Unmodelled('solver unknown')
    for kind, val, pc, _ in res:
        if kind == 'panic':
            st, m = solve(pc, None)
            if st == 'sat': viol.setdefault('fetch-task:' + panic_key(val), (f'the per-request fetch task panics: {val[0]} at {val[1]}', m))
            continue
        r, want, log, resp = val
        evs = [e[0] for e in log]
        if 'signal' in evs:
            signalled += 1; rep.nontrivial += 1
            i = evs.index('signal')
            before = evs[:i]
            need(pc, 'fetch-task:signalled-before-stored', 'the request is reported as completed although the block had not been accepted by the block store before (queue_block not yet called, or it failed)',
                 z3.BoolVal('queue_ok' in before))
            if 'queue_ok' in before and resp is not None:
                qb = deref_all(log[before.index('queue_ok')][1])
                need(pc, 'fetch-task:wrong-block', 'the block handed to the store is not the received one, or does not carry the requested number',
                     z3.And(to_z3_bool(M.values_equal(ex, qb, deref_all(resp[0]))), resp[1].e == want.e))
        else:
            if r != 'pending' and 'queue_ok' in evs:
                # completed fetch that is never signalled: the requester would re-request a stored block (harmless) — not an obligation
                pass
        for j, e_ in enumerate(log):
            if e_[0] in ('queue_ok', 'queue_err') and resp is not None:
                need(pc, 'fetch-task:wrong-number-queued', 'a received block with a number other than the requested one is handed to the block store', resp[1].e == want.e)
    for k, (text, m) in viol.items():
        rep.violation(F.Violation(rep.prop, k, text, None, None, ', '.join(f'{d.name()}={m[d]}' for d in m.decls() if d.arity() == 0 and '!' not in d.name())[:400] if m is not None else ''))
    if signalled == 0 and not viol:
        rep.add(F.Obligation(name, 'inconclusive', 'no explored path signals completion: vacuous')); return
    rep.add(F.Obligation(name, 'violated' if viol else 'discharged', paths=len(res), wall_s=round(time.time() - t0, 1)))
    rep.samples.append(f'fetch task: {len(res)} paths, {signalled} signal completion')
