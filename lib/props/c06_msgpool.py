"""C06 — retransmission store of outbound consensus messages (`consensus::MsgPool`, `MsgPoolRecv`): every message handed to the pool
is delivered to every subscriber exactly once and in order, INCLUDING the messages sent before the subscription (a connection
that is re-established re-subscribes from the start: that is the retransmission the progress argument relies on).
The pool is built by the real `MsgPool::new` and driven through every sequence of <= L operations {send, subscribe, recv by an
existing subscriber} by the real `MsgPool::send`, `MsgPool::subscribe` and `MsgPoolRecv::recv`; only what `recv` returns is
observed and compared with the specification (subscriber i has received the first n_i messages of the global send order; recv
returns message number n_i if it exists, and stays pending otherwise)."""
import time
import z3
from mirsym.core import (Exec, explore, solve, Num, Agg, Ref, Cell, Opaque, Unmodelled, BoundExceeded, UNIT)
from mirsym import env, models as M
from mirsym.models import some, none, ok, err, ready, pending, BoxV, deref_all
from mirsym.mk import Mk, fld
from props import coro
from props.coro import EnvFuture, CANCELED
from props.c11 import panic_key
import framework as F

NET = 'zksync_consensus_network'
P = r'zksync_consensus_network::consensus::'


def run(rep, db, tier):
    L = 5 if tier == 'quick' else 6
    name = f'MsgPool: every subscriber receives every message exactly once, in order, including earlier ones (histories of {L} operations)'
    t0 = time.time()
    ex = Exec(db, loop_bound=40)
    env.install(ex); coro.install_futures(ex)
    n_before = len(ex.user_models)
    def watch_channel(e, n, a):
        w = M.WatchV(a[0]); return M.tup(w, coro.WatchReceiver(w))
    ex.model(r'(tokio|zksync_concurrency)::sync::watch::channel::<.*>', watch_channel)
    def send_modify(e, n, a):
        wv = deref_all(a[0]); e.call_closure(a[1], [Ref(wv.cell)]); wv.version += 1; return UNIT
    ex.model(r'(tokio|zksync_concurrency)::sync::watch::Sender::<.*>::send_modify(::<.*>)?', send_modify)
    def changed(e, n, a):
        # nothing else runs inside one recv of this sequential history: the wait stays pending (or the context is cancelled)
        return EnvFuture('sync.changed', lambda e2: pending())
    ex.model_path('zksync_concurrency::sync::changed', changed)
    mine = ex.user_models[n_before:]; del ex.user_models[n_before:]; ex.user_models[0:0] = mine; ex._um_cache = {}
    try:
        k_new = db.find_one(P + r'MsgPool::new', kinds=('fn',))
        k_send = db.find_one(P + r'MsgPool::send', kinds=('fn',))
        k_sub = db.find_one(P + r'MsgPool::subscribe', kinds=('fn',))
        k_recv = db.find_one(P + r'MsgPoolRecv::recv', kinds=('fn',))
    except KeyError as u:
        rep.add(F.Obligation(name, 'inconclusive', str(u)[:400])); return

    def body(ex):
        pool = Cell(ex.call_key(k_new, []))
        sent = []; subs = []; bad = []; trace = []
        for step in range(L):
            opts = ['send', 'subscribe'] + [f'recv{i}' for i in range(len(subs))]
            if len(subs) >= 2: opts.remove('subscribe')
            op = opts[ex.choose(len(opts), f'op{step}')]
            if op == 'send':
                msg = BoxV(Opaque(('msg', len(sent)))); sent.append(msg)
                ex.call_key(k_send, [Ref(pool), msg]); trace.append('send')
            elif op == 'subscribe':
                subs.append([Cell(ex.call_key(k_sub, [Ref(pool)])), 0]); trace.append('subscribe')
            else:
                i = int(op[4:]); cell, got = subs[i]
                r = coro.run_async(ex, k_recv, [Ref(cell), Ref(Cell(Opaque('ctx')))])
                trace.append(f'recv by subscriber {i}')
                if got >= len(sent):
                    if r != 'pending': bad.append((step, f'subscriber {i} is handed a message although it has received all {len(sent)} messages sent so far (a message is delivered twice)'))
                    continue
                if r == 'pending' or r.variant == 1:
                    bad.append((step, f'subscriber {i} is not handed message number {got} although it was sent (a message is skipped or withheld: nothing would be retransmitted)')); continue
                v = deref_all(r.fields[0])
                tag = getattr(v, 'tag', None)
                if tag != ('msg', got):
                    bad.append((step, f'subscriber {i} is handed {tag} instead of message number {got} (out of order, skipped or repeated)'))
                subs[i][1] = got + 1
        return bad, trace
    try:
        res = explore(ex, body, budget_s=600)
    except (Unmodelled, BoundExceeded, KeyError) as u:
        rep.absorb_stats(ex.stats); rep.add(F.Obligation(name, 'inconclusive', f'{type(u).__name__}: {u}'[:700])); return
    rep.absorb_stats(ex.stats)
    viol = {}
    for kind, val, pc, _ in res:
        if kind == 'panic':
            viol.setdefault('msgpool:' + panic_key(val), f'the message pool panics in a history: {val[0]} at {val[1]}'); continue
        bad, trace = val
        rep.nontrivial += 1
        if bad: viol.setdefault('msgpool:delivery', f'{bad[0][1]} — at step {bad[0][0]} of the history {" ; ".join(trace)}')
    for k, text in viol.items():
        rep.violation(F.Violation(rep.prop, k, text, None, None))
    rep.add(F.Obligation(name, 'violated' if viol else 'discharged', paths=len(res), wall_s=round(time.time() - t0, 1)))
    rep.samples.append(f'MsgPool histories: {len(res)} paths')
