"""C10 (c) — mux frame dispatch: one iteration of the real `Mux::process_inbound_frames` coroutine on an arbitrary
2-byte frame header (and, for DATA frames, an arbitrary 16-bit length), with the transport, semaphores and stream
channels answered by contract. Obligations: no panic for any header; every frame handed to a stream carries a read
permit that holds one slot of the frame-count semaphore and as many bytes of the buffer-size semaphore as its data;
a data buffer is allocated only after its size permit was acquired and never exceeds read_frame_size."""
import time
import z3
from mirsym.core import (Exec, explore, solve, Num, Agg, Ref, Cell, Opaque, Panic, Unmodelled, BoundExceeded, num_cmp, num_arith, UNIT)
from mirsym import env, models as M, symgen
from mirsym.models import some, none, ok, err, ready, pending, BoxV, VecV, deref_all
from mirsym.mk import Mk, fld
from props import coro
from props.coro import EnvFuture, CANCELED
from props.c11 import panic_key
from framework import Obligation, Violation
import replay

NET = 'zksync_consensus_network'


class Sem:
    def __init__(self, name, n): self.name = name; self.n = n
    def py_clone(self, ex): return self


class Permit:
    def __init__(self, sem, n): self.sem = sem; self.n = n
    def py_clone(self, ex): return self


class Buf:
    def __init__(self, cap): self.cap = cap; self.len = Num(0, 64)
    def py_clone(self, ex): return self


def install(ex, log):
    env.install(ex); coro.install_futures(ex)
    sems = []

    def sem_new(e, n, a):
        s = Sem(['count', 'size'][len(sems) % 2], a[0]); sems.append(s); return s
    ex.model_path('zksync_concurrency::sync::Semaphore::new', sem_new)
    ex.model(r'(tokio|zksync_concurrency)::sync::Semaphore::new', sem_new)

    def acquire(e, n, a):
        sem = deref_all(a[1]); cnt = a[2]
        def respond(e2):
            if e2.choose(2, 'acquire_canceled') == 0: return ready(err(CANCELED))
            log().append(('acquire', sem.name, cnt)); return ready(ok(Permit(sem, cnt)))
        return EnvFuture('acquire', respond)
    ex.model_path('zksync_concurrency::sync::acquire_many_owned', acquire)

    def try_acquire(e, n, a):
        # non-blocking acquisition: fails when the permits are exhausted (the peer is sending faster than the node consumes)
        sem = deref_all(a[0]); cnt = a[1] if len(a) > 1 else Num(1, 32)
        zero = cnt.concrete and cnt.e == 0          # acquiring nothing always succeeds on an open semaphore (tokio)
        if not zero and e.choose(2, 'try_acquire_no_permits') == 0: return err(Opaque('TryAcquireError::NoPermits'))
        log().append(('acquire', sem.name, cnt)); return ok(Permit(sem, cnt))
    ex.model(r'(tokio|zksync_concurrency)::sync::Semaphore::try_acquire(_many)?_owned', try_acquire)
    reads = [0]

    def read_exact(e, n, a):
        buf = a[2]
        def respond(e2):
            tgt = deref_all(buf)
            if isinstance(tgt, VecV):
                k = reads[0]
                if k >= e2.max_reads: return pending()
                reads[0] += 1
                c = e2.choose(3, 'read')
                if c == 1: return ready(err(CANCELED))
                if c == 2: return ready(ok(err(Opaque('io::Error'))))
                for i in range(len(tgt.items)): tgt.items[i] = e2.fresh(f'rx{k}_{i}', 8)
                if k == 1 and len(tgt.items) == 2:
                    # bound of the claim: a data frame is split into at most 2 stream frames
                    e2.assume(tgt.items[0].e + 256 * tgt.items[1].e <= 2 * e2.rfs.e)
                log().append(('read', len(tgt.items)))
                return ready(ok(ok(UNIT)))
            if isinstance(tgt, Buf):
                c = e2.choose(2, 'read_data')
                if c == 1: return ready(err(CANCELED))
                log().append(('read_data', tgt.cap)); return ready(ok(ok(UNIT)))
            raise Unmodelled(f'read_exact into {type(tgt).__name__}')
        return EnvFuture('read_exact', respond)
    ex.model_path('zksync_concurrency::io::read_exact', read_exact)
    ex.reset_reads = lambda: reads.__setitem__(0, 0) or sems.clear()

    def buf_new(e, n, a):
        log().append(('alloc', a[0])); return Buf(a[0])
    ex.model_path('zksync_consensus_network::noise::bytes::Buffer::new', buf_new)
    ex.model_path('zksync_consensus_network::noise::bytes::Buffer::as_mut_capacity', lambda e, n, a: a[0])
    def buf_extend(e, n, a):
        b = deref_all(a[0]); b.len = num_arith('Add', b.len, a[1]); return UNIT
    ex.model_path('zksync_consensus_network::noise::bytes::Buffer::extend', buf_extend)

    def chan_send(e, n, a):
        log().append(('frame', a[1], deref_all(a[0]))); return UNIT
    ex.model_path('zksync_concurrency::ctx::channel::UnboundedSender::send', chan_send)


def check(rep, db, tier):
    key = db.find_one(r'zksync_consensus_network::mux::Mux::process_inbound_frames::<.*>', kinds=('inst',))
    rec = db.body(key)
    mux_t = db.ty(rec['crate'], db.ty(rec['crate'], rec['body']['locals'][1]['ty'])['info']['to'])
    ex = Exec(db, loop_bound=10)
    cur = [None]
    install(ex, lambda: cur[0])
    ex.max_reads = 2
    K = 2

    def body(ex):
        ex.reset_reads()
        log = []; cur[0] = log
        g = symgen.SymGen(ex, db, rec['crate'], max_depth=1, max_len=0, prefix='cfg')
        fs = mux_t['info']['variants'][0]['fields']
        cfg_t = None
        vals = {}
        for f in fs:
            ft = db.ty(rec['crate'], f['ty'])
            if f['name'] == 'cfg':
                inner = db.ty(rec['crate'], [a['ty'] for a in ft['info']['args'] if isinstance(a, dict) and 'ty' in a][0])
                cfgv = g.of(inner)
                vals['cfg'] = BoxV(cfgv)
            else:
                vals[f['name']] = M.MapV([], True)
        mux = Agg('adt', mux_t, 0, [vals[f['name']] for f in fs])
        rfs = fld(cfgv, 'read_frame_size'); ex.assume(z3.And(rfs.e >= 1, rfs.e <= 65535)); ex.rfs = rfs
        acc = VecV([Opaque(('accept_stream', i)) for i in range(K)]); con = VecV([Opaque(('connect_stream', i)) for i in range(K)])
        r = coro.run_async(ex, key, [Ref(Cell(mux)), Ref(Cell(Opaque('ctx'))), Opaque('transport'), acc, con])
        return r, log, rfs
    res = explore(ex, body, budget_s=600)
    rep.absorb_stats(ex.stats)
    viol = []
    for kind, val, pc, lg in res:
        if kind == 'panic':
            st, m = solve(pc, None)
            if st == 'sat':
                hdr = [m.eval(z3.Int(f'rx0_{i}'), model_completion=True).as_long() for i in range(2)]
                viol.append((f'frame-panic:process_inbound_frames:{val[0].split(":")[-1].strip()[:40]}', f'Mux::process_inbound_frames panics on header bytes {hdr}: {val[0]} at {val[1]}', hdr))
            continue
        r, log, rfs = val
        rep.nontrivial += 1
        held = []      # acquisitions not yet attached to a frame
        for ev in log:
            if ev[0] == 'acquire': held.append(ev)
            elif ev[0] == 'alloc':
                size = ev[1]
                szp = [h for h in held if h[1] == 'size']
                cond = z3.And(size.e <= rfs.e, z3.BoolVal(bool(szp))) if not size.concrete else z3.BoolVal(size.e <= 65535 and bool(szp))
                if szp: cond = z3.And(cond, M.to_z3_bool(num_cmp('Eq', szp[-1][2], Num(size.e, szp[-1][2].bits))) if True else cond)
                st, m = solve(pc, z3.Not(cond))
                if st == 'sat': viol.append(('frame-buffer-unbounded', 'a data buffer is allocated without a matching buffer-size permit or larger than read_frame_size', None))
            elif ev[0] == 'frame':
                frame = ev[1]
                permit = fld(frame, '_permit'); data = fld(frame, 'data')
                if permit.variant == 0:
                    viol.append(('frame-without-permit', 'an inbound frame is queued to a stream without holding a read permit (unbounded buffering of unconsumed frames)', None)); continue
                rp = permit.fields[0]
                cnt = fld(rp, '_count'); sz = fld(rp, '_size')
                okc = isinstance(cnt, Permit) and cnt.sem.name == 'count' and isinstance(sz, Permit) and sz.sem.name == 'size'
                if not okc:
                    viol.append(('frame-permit-wrong-semaphore', 'the read permit of a queued frame does not hold the frame-count / buffer-size semaphores', None)); continue
                want_sz = Num(0, 64) if data.variant == 0 else data.fields[0].cap
                cond = z3.And(M.to_z3_bool(num_cmp('Ge', cnt.n, Num(1, cnt.n.bits))), M.to_z3_bool(num_cmp('Eq', Num(sz.n.e, 64), Num(want_sz.e, 64))))
                st, m = solve(pc, z3.Not(cond))
                if st == 'sat': viol.append(('frame-permit-too-small', 'the read permit of a queued frame holds no frame-count slot or fewer bytes than the frame buffers', None))
    return viol, len(res)


def replay_src(hdr):
    return None


def run(rep, db, tier):
    t0 = time.time()
    try:
        viol, n = check(rep, db, tier)
        seen = set()
        for key, text, hdr in viol:
            if key in seen: continue
            seen.add(key)
            rep.violation(Violation('C10', key, text, None, None))
        rep.add(Obligation('mux frame dispatch: one inbound frame, arbitrary header', 'violated' if viol else 'discharged', paths=n, wall_s=round(time.time() - t0, 1)))
        rep.samples.append(f'process_inbound_frames: {n} paths over all 2^16 headers x 2^16 data lengths (symbolic), read_frame_size symbolic in [1, 65535]')
    except (Unmodelled, KeyError) as u:
        rep.add(Obligation('mux frame dispatch', 'inconclusive', str(u)[:600]))
