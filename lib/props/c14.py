"""C14 (sequential kernel only) — multiplexer: negotiation of the sub-stream count and the inbound frame step.

Decided on the real MIR:
 (A) `Mux::spawn_streams` (coroutine): for each capability the number of reusable sub-streams created is
     min(local max_streams, what the PEER announced for the opposite role of that capability, 0 if it announced none)
     — accept streams are matched with the peer's connect limits and vice versa —, stream ids are consecutive from 0
     in capability order, and the returned dispatch table has exactly one sender per created stream, in id order.
 (B) `Mux::process_inbound_frames` (coroutine), one frame with an arbitrary 2-byte header (and arbitrary 16-bit length
     for DATA), transport / semaphores / channels by contract: a frame is handed to exactly the sub-stream with the
     header's id on the side OPPOSITE to the sender's role (isolation), with its header unchanged; an id outside the
     negotiated table is a protocol error and hands nothing over; the pieces of a DATA frame are handed over in order,
     each of 1..read_frame_size bytes, summing to the announced length; every piece holds one frame-count permit and
     exactly its size in buffer-size permits, acquired before its buffer is allocated (flow control at intake).
 (C) `ReadStream::read_exact` (props/c14_read.py): data is delivered completely and in order (cached rest of a frame
     first, a frame dropped only when fully consumed — which is also when its read permit is released), end-of-stream is
     sticky at CLOSE and a read never continues past it.
 (D) one cycle of `ReusableStream::run` (props/c14_reusable.py, scope sequentialised): CLOSE is sent before a sub-stream
     is reused, an accept-side stream sends OPEN only after the peer's OPEN arrived, the transient stream is handed to the
     application exactly once and only after OPEN was sent and received, one limiter permit is held across the cycle.
NOT decided (outside the claim): everything that depends on the interplay of tasks — lock hand-over between consecutive
transient streams under real scheduling, write-side framing and flushing, ordering across the writer task, and the
buffer bound under a peer that ignores flow control over many frames."""
import time
import z3
from mirsym.core import (Exec, explore, solve, Num, Agg, Ref, Cell, Opaque, Unmodelled, BoundExceeded, num_cmp, to_z3_bool, UNIT)
from mirsym import env, models as M, symgen
from mirsym.models import some, none, ok, err, ready, pending, BoxV, VecV, MapV, deref_all
from mirsym.mk import Mk, fld
from props import coro, c10_frames
from props.coro import EnvFuture, CANCELED
from props.c11 import panic_key
from framework import Obligation, Violation

PROP = 'C14'
NET = 'zksync_consensus_network'


def zb(x): return to_z3_bool(x)


# ------------------------------------------------------------------------------------------------ (B) inbound frame step
def check_dispatch(rep, db, tier):
    key = db.find_one(r'zksync_consensus_network::mux::Mux::process_inbound_frames::<.*>', kinds=('inst',))
    rec = db.body(key)
    mux_t = db.ty(rec['crate'], db.ty(rec['crate'], rec['body']['locals'][1]['ty'])['info']['to'])
    ex = Exec(db, loop_bound=10)
    cur = [None]
    c10_frames.install(ex, lambda: cur[0])
    ex.max_reads = 2
    K = 2

    def body(ex):
        ex.reset_reads()
        log = []; cur[0] = log
        g = symgen.SymGen(ex, db, rec['crate'], max_depth=1, max_len=0, prefix='cfg')
        fs = mux_t['info']['variants'][0]['fields']
        vals = {}
        for f in fs:
            ft = db.ty(rec['crate'], f['ty'])
            if f['name'] == 'cfg':
                inner = db.ty(rec['crate'], [a['ty'] for a in ft['info']['args'] if isinstance(a, dict) and 'ty' in a][0])
                cfgv = g.of(inner); vals['cfg'] = BoxV(cfgv)
            else:
                vals[f['name']] = MapV([], True)
        mux = Agg('adt', mux_t, 0, [vals[f['name']] for f in fs])
        rfs = fld(cfgv, 'read_frame_size'); ex.assume(z3.And(rfs.e >= 1, rfs.e <= 65535)); ex.rfs = rfs
        # negotiated tables of different sizes: ids valid on one side may be invalid on the other
        na = 1 + ex.choose(K, 'n_accept'); nc = 1 + ex.choose(K, 'n_connect')
        acc = VecV([Opaque(('accept_stream', i)) for i in range(na)]); con = VecV([Opaque(('connect_stream', i)) for i in range(nc)])
        r = coro.run_async(ex, key, [Ref(Cell(mux)), Ref(Cell(Opaque('ctx'))), Opaque('transport'), acc, con])
        return r, log, rfs, na, nc
    res = explore(ex, body, budget_s=900)
    rep.absorb_stats(ex.stats)
    viol = {}; handed = 0

    def need(pc, k, text, cond):
        if k in viol: return
        st, m = solve(pc, z3.Not(cond))
        if st == 'sat': viol[k] = (text, m)
        elif st != 'unsat': raise Unmodelled('solver unknown')
    for kind, val, pc, _ in res:
        if kind == 'panic':
            st, m = solve(pc, None)
            if st == 'sat': viol.setdefault('dispatch:' + panic_key(val), (f'process_inbound_frames panics: {val[0]} at {val[1]}', m))
            continue
        r, log, rfs, na, nc = val
        # associate every handed-over frame with the header (and DATA length) read before it: 2-byte reads are numbered in
        # order (symbols rx<k>_0, rx<k>_1); a 2-byte read directly after a header read is the length of a DATA frame
        k = -1; hdr_k = None; len_k = None; prev_was_header = False
        groups = []                                   # (hdr_k, len_k, [frames])
        for ev in log:
            if ev[0] == 'read':
                k += 1
                if prev_was_header: len_k = k; groups[-1][1] = k; prev_was_header = False
                else: hdr_k = k; len_k = None; groups.append([k, None, []]); prev_was_header = True
            else:
                prev_was_header = False
                if ev[0] == 'frame':
                    if not groups: need(pc, 'dispatch:frame-without-header', 'a frame is handed over before any header was read', z3.BoolVal(False)); continue
                    groups[-1][2].append(ev)
        for hk, lk, frames in groups:
            if not frames: continue
            handed += 1; rep.nontrivial += 1
            h = z3.Int(f'rx{hk}_0') + 256 * z3.Int(f'rx{hk}_1')
            sid = h % 8192; kind_bit = (h / 8192) % 2; fk = h / 16384       # id, sender role (0 = accept end, 1 = connect end), frame kind
            table_len = z3.If(kind_bit == 0, nc, na)
            sizes = []
            for ev in frames:
                frame, sender = ev[1], ev[2]
                tag = sender.tag if isinstance(sender, Opaque) else None
                if not (isinstance(tag, tuple) and tag[0] in ('accept_stream', 'connect_stream')):
                    need(pc, 'dispatch:unknown-target', 'a frame is handed to something that is not one of the negotiated sub-streams', z3.BoolVal(False)); continue
                need(pc, 'dispatch:wrong-substream', 'an inbound frame is handed to a sub-stream other than the one with the header\'s id on the side opposite to the sender\'s role (isolation)',
                     z3.And(sid == tag[1], kind_bit == (0 if tag[0] == 'connect_stream' else 1)))
                hv = fld(fld(frame, 'header'), '0')
                need(pc, 'dispatch:header-altered', 'the frame handed to the sub-stream does not carry the received header', hv.e == h)
                data = fld(frame, 'data')
                if data.variant == 1: sizes.append(data.fields[0].cap)
                need(pc, 'dispatch:kind-payload-mismatch', 'an OPEN/CLOSE frame carries data or a DATA frame carries none', z3.If(fk == 1, z3.BoolVal(data.variant == 1), z3.BoolVal(data.variant == 0)))
            need(pc, 'dispatch:invalid-frame-kind-forwarded', 'a frame with an unassigned frame kind is handed to a sub-stream', fk != 3)
            need(pc, 'dispatch:out-of-table', 'a frame whose id is outside the negotiated table is handed to a sub-stream', sid < table_len)
            need(pc, 'dispatch:control-frame-duplicated', 'one OPEN/CLOSE header is handed over more than once', z3.Or(fk == 1, z3.BoolVal(len(frames) == 1)))
            if sizes:
                for s_ in sizes:
                    need(pc, 'dispatch:piece-size', 'a piece of a DATA frame is empty or larger than read_frame_size', z3.And(s_.e >= 1, s_.e <= rfs.e))
                if lk is None:
                    need(pc, 'dispatch:data-without-length', 'data is handed over although no length was read', z3.BoolVal(False))
                else:
                    length = z3.Int(f'rx{lk}_0') + 256 * z3.Int(f'rx{lk}_1')
                    total = sum((s_.e for s_ in sizes), z3.IntVal(0))
                    need(pc, 'dispatch:length-exceeded', 'the pieces of a DATA frame handed over exceed the announced length', total <= length)
                    # when the loop went on to the next header the whole announced length was handed over
                    if groups[-1][0] != hk:
                        need(pc, 'dispatch:data-truncated', 'the intake went on to the next frame before the whole announced data length was handed over', total == length)
    # flow-control obligations at intake are those of the C10 frame check (same exploration): re-evaluated here
    fviol, _ = c10_frames.check(rep, db, tier)
    for k, text, _h in fviol:
        if k.startswith('frame-panic'): continue
        viol.setdefault('intake:' + k, (text, None))
    if handed == 0 and not viol:
        raise Unmodelled('no explored path hands a frame to a sub-stream (vacuous)')
    return [(k, t, m) for k, (t, m) in viol.items()], len(res)


# ------------------------------------------------------------------------------------------------ (A) stream-count negotiation
class Chan:
    def __init__(self, cid, half): self.cid = cid; self.half = half
    def py_clone(self, ex): return self
    def py_eq(self, ex, o): return isinstance(o, Chan) and (o.cid, o.half) == (self.cid, self.half)
    def __repr__(self): return f'{self.half}#{self.cid}'


def check_spawn(rep, db, tier):
    ks = db.find(r'zksync_consensus_network::mux::Mux::spawn_streams', kinds=('fn',))
    if len(ks) != 1: raise Unmodelled('Mux::spawn_streams not found')
    key = ks[0]
    rec = db.body(key)
    mux_t = db.ty(rec['crate'], db.ty(rec['crate'], rec['body']['locals'][1]['ty'])['info']['to'])
    mk = Mk(db, NET)
    MAXS = 2
    ex = Exec(db, loop_bound=2 * MAXS + 6); ex.hash_order_insertion = True
    env.install(ex); coro.install_futures(ex)
    n_before = len(ex.user_models)
    cur = [None]

    def unbounded(e, n, a):
        s = cur[0]; s['chans'] += 1
        return Agg('tuple', None, 0, [Chan(s['chans'], 'tx'), Chan(s['chans'], 'rx')])
    ex.model(r'zksync_concurrency::ctx::channel::unbounded(::<.*>)?', unbounded)
    ex.model(r'zksync_consensus_network::mux::reusable_stream::ReadReusableStream::new', lambda e, n, a: Agg('adt', 'ReadReusableStream', 0, [a[0]]))

    def write_new(e, n, a):
        cur[0]['writes'].append((a[1], a[2])); return Opaque('write_stream')
    ex.model(r'zksync_consensus_network::mux::reusable_stream::WriteReusableStream::new', write_new)
    ex.model(r'zksync_consensus_network::mux::reusable_stream::ReusableStream::run', lambda e, n, a: Opaque(('stream_task', a[0])))

    def spawn_bg(e, n, a):
        cur[0]['spawned'].append(a[1]); return Opaque('join_handle')
    ex.model(r'zksync_concurrency::scope::Scope::<.*>::spawn_bg(::<.*>)?', spawn_bg)
    ex.model(r'<zksync_concurrency::ctx::channel::(Unbounded)?Sender<.*> as std::clone::Clone>::clone', lambda e, n, a: deref_all(a[0]))
    mine = ex.user_models[n_before:]; del ex.user_models[n_before:]
    ex.user_models[0:0] = mine; ex._um_cache = {}
    sq_t = mk.ty(r'zksync_consensus_network::mux::reusable_stream::StreamQueue')
    hs_t = mk.ty(r'zksync_consensus_network::mux::handshake::Handshake')
    kind_t = mk.ty(r'zksync_consensus_network::mux::header::StreamKind')

    def queue(ex, name):
        ms = ex.fresh(name, 32); ex.assume(ms.e <= MAXS)
        vals = [ms if f['name'] == 'max_streams' else Opaque('sq_' + f['name']) for f in sq_t['info']['variants'][0]['fields']]
        return BoxV(Agg('adt', sq_t, 0, vals)), ms

    def body(ex):
        s = dict(chans=0, writes=[], spawned=[]); cur[0] = s
        ncap = 1 + ex.choose(2, 'capabilities')
        caps = [Num(10 + 5 * i, 64) for i in range(ncap)]
        acc = []; con = []; loc_a = []; loc_c = []
        for i, c in enumerate(caps):
            q, m = queue(ex, f'accept_max{i}'); acc.append((c, q)); loc_a.append(m)
            q, m = queue(ex, f'connect_max{i}'); con.append((c, q)); loc_c.append(m)
        # what the peer announced: for each capability present or absent, symbolic limits
        def peer_map(tag):
            ents = []; vals = []
            for i, c in enumerate(caps):
                if ex.choose(2, f'peer_{tag}_has{i}') == 0:
                    v = ex.fresh(f'peer_{tag}{i}', 32); ents.append((c, v)); vals.append(v)
                else: vals.append(None)
            return MapV(ents, False, 'map'), vals
        pa, pa_vals = peer_map('accept'); pc_, pc_vals = peer_map('connect')
        fs = mux_t['info']['variants'][0]['fields']
        vals = {'cfg': BoxV(Opaque('cfg')), 'accept': MapV(acc, True), 'connect': MapV(con, True)}
        mux = Agg('adt', mux_t, 0, [vals[f['name']] for f in fs])
        hs = Agg('adt', hs_t, 0, [pa if f['name'] == 'accept_max_streams' else pc_ for f in hs_t['info']['variants'][0]['fields']])
        which = ex.choose(2, 'stream_kind')               # 0 = ACCEPT, 1 = CONNECT
        kind = Agg('adt', kind_t, 0, [Num(0 if which == 0 else 0b0010000000000000, 16)])
        r = coro.run_async(ex, key, [Ref(Cell(mux)), Ref(Cell(Opaque('ctx'))), Ref(Cell(Opaque('scope'))), kind, Ref(Cell(hs)), Ref(Cell(Chan('write', 'tx'))), Ref(Cell(BoxV(Opaque('flush'))))])
        local = loc_a if which == 0 else loc_c
        peer = pc_vals if which == 0 else pa_vals            # accept streams are matched with the peer's CONNECT limits
        return r, local, peer, which, dict(s)
    res = explore(ex, body, budget_s=900)
    rep.absorb_stats(ex.stats)
    viol = {}

    def need(pc, k, text, cond):
        if k in viol: return
        st, m = solve(pc, z3.Not(cond))
        if st == 'sat': viol[k] = (text, m)
        elif st != 'unsat': raise Unmodelled('solver unknown')
    nontriv = 0
    for kind, val, pc, _ in res:
        if kind == 'panic':
            st, m = solve(pc, None)
            if st == 'sat': viol.setdefault('spawn_streams:' + panic_key(val), (f'Mux::spawn_streams panics: {val[0]} at {val[1]}', m))
            continue
        r, local, peer, which, s = val
        if r == 'pending': continue
        table = deref_all(r)
        n = len(table.items)
        if n: nontriv += 1; rep.nontrivial += 1
        want = sum((z3.If(l.e <= (p.e if p is not None else 0), l.e, (p.e if p is not None else z3.IntVal(0))) for l, p in zip(local, peer)), z3.IntVal(0))
        need(pc, 'spawn_streams:stream-count', 'the number of sub-streams created is not the sum over capabilities of min(local limit, limit the peer announced for the opposite role; 0 if none)', want == n)
        need(pc, 'spawn_streams:tasks', 'the dispatch table and the spawned stream tasks differ in number', z3.BoolVal(len(s['spawned']) == n and len(s['writes']) == n))
        ids_ok = all(deref_all(w[0]).fields[0].concrete and deref_all(w[0]).fields[0].e == i for i, w in enumerate(s['writes'])) if len(s['writes']) == n else False
        need(pc, 'spawn_streams:stream-ids', 'stream ids are not consecutive from 0 in creation order', z3.BoolVal(bool(ids_ok)))
        order_ok = all(isinstance(deref_all(x), Chan) and deref_all(x).cid == i + 1 for i, x in enumerate(table.items))
        need(pc, 'spawn_streams:table-order', 'the dispatch table is not in stream-id order (entry i must be the sender of stream i)', z3.BoolVal(bool(order_ok)))
    if nontriv == 0 and not viol:
        raise Unmodelled('no explored path creates a sub-stream (vacuous)')
    return [(k, t, m) for k, (t, m) in viol.items()], len(res)


def witness(m):
    if m is None: return ''
    return ', '.join(f'{d.name()}={m[d]}' for d in sorted(m.decls(), key=lambda d: d.name()) if d.arity() == 0 and '!' not in d.name())[:500]


def run(rep, db, tier, seed):
    rep.engines.append('mirsym (MIR symbolic execution of the mux coroutines + z3)')
    rep.trusted += M.TRUSTED + env.TRUSTED + ['transport reads, semaphores, channels, ReusableStream tasks answered by contract; one frame per run of the intake loop']
    rep.assumptions += ['only the sequential kernel (negotiation + intake of one frame) is decided; isolation/ordering/flow control as emerging from the interplay of reader, writer and per-stream tasks are not']
    rep.bounds = dict(capabilities='1..2', local_limits='symbolic <= 2 per capability and role', peer_limits='symbolic u32, each capability announced or not', dispatch_tables='1..2 accept x 1..2 connect streams',
                      header='all 2^16 headers (symbolic)', data_length='symbolic 16-bit, split into <= 2 pieces', read_frame_size='symbolic 1..65535')
    seen = {}
    def handle(name, fn):
        t0 = time.time()
        try:
            viol, n = fn(rep, db, tier)
            for key, text, m in viol:
                if key in seen: continue
                seen[key] = 1
                rep.violation(Violation(PROP, key, text, None, None, witness(m)))
            rep.add(Obligation(name, 'violated' if viol else 'discharged', paths=n, wall_s=round(time.time() - t0, 1)))
            rep.samples.append(f'{name}: {n} feasible paths')
        except (Unmodelled, KeyError, BoundExceeded) as u:
            rep.add(Obligation(name, 'inconclusive', f'{type(u).__name__}: {u}'[:700]))
    handle('stream-count negotiation (Mux::spawn_streams)', check_spawn)
    handle('inbound frame step (Mux::process_inbound_frames): isolation, piece sizes, intake flow control', check_dispatch)
    try:
        from props import c14_handshake
        c14_handshake.run(rep, db, tier)
    except Exception as u:
        rep.add(Obligation('mux handshake / verify', 'inconclusive', f'{type(u).__name__}: {u}'[:600]))
    try:
        from props import c14_queue
        c14_queue.run(rep, db, tier)
    except Exception as u:
        rep.add(Obligation('stream hand-over (StreamQueue::push / ReservedStream::open)', 'inconclusive', f'{type(u).__name__}: {u}'[:600]))
    try:
        from props import c14_reusable
        c14_reusable.run(rep, db, tier)
    except Exception as u:
        rep.add(Obligation('ReusableStream::run', 'inconclusive', f'{type(u).__name__}: {u}'[:600]))
    try:
        from props import c14_read
        c14_read.run(rep, db, tier)
    except Exception as u:
        rep.add(Obligation('ReadStream::read_exact', 'inconclusive', f'{type(u).__name__}: {u}'[:600]))
    try:
        from props import c14_streamops
        c14_streamops.run(rep, db, tier)
    except Exception as u:
        rep.add(Obligation('sub-stream operations (recv_open, write_all, send_close, send_open)', 'inconclusive', f'{type(u).__name__}: {u}'[:600]))
    rep.extra['explanation'] = 'sequential kernel of the multiplexer on the real MIR; task-interplay guarantees of C14 are NOT decided'
