"""C12 — the preface of a connection (`preface::accept`, `preface::connect`; coroutines executed on their real MIR with the framed
proto exchange, the noise handshake and the TCP connect answered by contract): which endpoint (consensus / gossip) a peer asks for
is asked for, and the stream handed on is THE encrypted session produced by exactly one noise handshake on the very connection that was
accepted / dialled — the session whose identifier the subsequent identity handshake signs (C12: "this very encrypted session") — and
the endpoint returned / sent is the one received / requested. The order of the exchange and its time-out are protocol and availability
matters the property does not fix: observed, not demanded."""
import time
import z3
from mirsym.core import (Exec, explore, solve, Num, Agg, Ref, Cell, Opaque, Unmodelled, BoundExceeded, UNIT)
from mirsym import env, models as M
from mirsym.models import some, none, ok, err, ready, BoxV, deref_all
from mirsym.mk import Mk, fld, variant_name
from props import coro
from props.coro import EnvFuture
from props.c11 import panic_key
import framework as F

NET = 'zksync_consensus_network'


class StreamTok:
    n = 0
    def __init__(self, kind, base=None): StreamTok.n += 1; self.kind = kind; self.base = base; self.id = StreamTok.n
    def py_clone(self, ex): return self
    def __repr__(self): return f'{self.kind}#{self.id}'


def run(rep, db, tier):
    name = 'preface::accept / connect: the stream handed on is the encrypted session of one noise handshake on the accepted / dialled connection; endpoint as received / requested'
    t0 = time.time()
    ex = Exec(db, loop_bound=8)
    env.install(ex); coro.install_futures(ex)
    n_before = len(ex.user_models)
    cur = [None]; log = lambda: cur[0]
    mk = Mk(db, NET)
    def tok(v):
        v = deref_all(v)
        return v if isinstance(v, StreamTok) else None
    def ctx_of(v):
        v = deref_all(v)
        return getattr(v, 'tag', None)
    def recv_proto(e, n, a):
        what = 'Encryption' if 'preface::Encryption' in n else ('Endpoint' if 'preface::Endpoint' in n else '?')
        def respond(e2):
            if e2.choose(2, f'recv_{what}_fails') == 0: log().append(('recv_failed', what)); return ready(err(Opaque('ctx::Error')))
            if what == 'Encryption': val = mk.adt(r'zksync_consensus_network::preface::Encryption', 'NoiseNN')
            elif what == 'Endpoint': val = mk.adt(r'zksync_consensus_network::preface::Endpoint', ('ConsensusNet', 'GossipNet')[e2.choose(2, 'endpoint')])
            else: raise Unmodelled(f'recv_proto of {n}')
            log().append(('recv', what, tok(a[1]), ctx_of(a[0]), val)); return ready(ok(val))
        return EnvFuture('recv_proto', respond)
    ex.model(r'zksync_consensus_network::frame::recv_proto::<.*>', recv_proto)
    def send_proto(e, n, a):
        what = 'Encryption' if 'preface::Encryption' in n else ('Endpoint' if 'preface::Endpoint' in n else '?')
        def respond(e2):
            if e2.choose(2, f'send_{what}_fails') == 0: return ready(err(Opaque('ctx::Error')))
            log().append(('send', what, tok(a[1]), ctx_of(a[0]), deref_all(a[2]))); return ready(ok(UNIT))
        return EnvFuture('send_proto', respond)
    ex.model(r'zksync_consensus_network::frame::send_proto::<.*>', send_proto)
    def handshake(e, n, a):
        role = 'server' if 'server_handshake' in n else 'client'
        def respond(e2):
            if e2.choose(2, 'handshake_fails') == 0: return ready(err(Opaque('ctx::Error')))
            raw = tok(a[1]); ns = StreamTok('noise', raw)
            log().append(('handshake', role, raw, ctx_of(a[0]), ns)); return ready(ok(ns))
        return EnvFuture('noise handshake', respond)
    ex.model(r'zksync_consensus_network::noise::stream::Stream(::<.*>)?::(server|client)_handshake', handshake)
    def connect(e, n, a):
        def respond(e2):
            if e2.choose(2, 'connect_fails') == 0: return ready(err(Opaque('ctx::Error')))
            raw = StreamTok('raw'); log().append(('connect', raw, ctx_of(a[0]))); return ready(ok(raw))
        return EnvFuture('tcp connect', respond)
    ex.model(r'zksync_consensus_network::metrics::MeteredStream::connect', connect)
    # awaiting the future polls the coroutine body by its static name, which the generic "functions of a metrics module are opaque"
    # rule of the environment would swallow
    ex.model(r'zksync_consensus_network::metrics::MeteredStream::connect::\{closure#0\}', lambda e, n, a: coro.poll_value(e, a[0]))
    ex.model(r'zksync_concurrency::ctx::Ctx::with_timeout', lambda e, n, a: Opaque('ctx_with_timeout'))
    ex.model(r'<.* as zksync_concurrency::error::Wrap>::(wrap|with_wrap)(::<.*>)?', lambda e, n, a: a[0])
    mine = ex.user_models[n_before:]; del ex.user_models[n_before:]; ex.user_models[0:0] = mine; ex._um_cache = {}
    try:
        k_acc = db.find_one(r'zksync_consensus_network::preface::accept', kinds=('fn',))
        k_con = db.find_one(r'zksync_consensus_network::preface::connect', kinds=('fn',))
    except KeyError as u:
        rep.add(F.Obligation(name, 'inconclusive', str(u)[:400])); return
    viol = {}; okpaths = 0

    def body(ex):
        cur[0] = []
        if ex.choose(2, 'side') == 0:
            raw = StreamTok('raw')
            r = coro.run_async(ex, k_acc, [Ref(Cell(Opaque('ctx'))), raw])
            return 'accept', r, raw, None, list(cur[0])
        want = mk.adt(r'zksync_consensus_network::preface::Endpoint', ('ConsensusNet', 'GossipNet')[ex.choose(2, 'asked')])
        r = coro.run_async(ex, k_con, [Ref(Cell(Opaque('ctx'))), Opaque('addr'), want])
        return 'connect', r, None, want, list(cur[0])
    try:
        res = explore(ex, body, budget_s=300)
    except (Unmodelled, BoundExceeded, KeyError) as u:
        rep.absorb_stats(ex.stats); rep.add(F.Obligation(name, 'inconclusive', f'{type(u).__name__}: {u}'[:700])); return
    rep.absorb_stats(ex.stats)
    for kind, val, pc, _ in res:
        if kind == 'panic':
            viol.setdefault('preface:' + panic_key(val), f'the preface panics: {val[0]} at {val[1]}'); continue
        side, r, raw, want, lg = val
        # every awaited step runs under the preface time-out, successful or not
        if r == 'pending' or r.variant != 0: continue
        okpaths += 1; rep.nontrivial += 1
        kinds = [(e[0], e[1]) if e[0] in ('recv', 'send') else (e[0],) for e in lg]
        if side == 'accept':
            hss = [e for e in lg if e[0] == 'handshake']; eps = [e for e in lg if e[0] == 'recv' and e[1] == 'Endpoint']
            out = r.fields[0]
            good = len(hss) == 1 and hss[0][2] is raw and deref_all(out.fields[0]) is hss[0][4] and len(eps) >= 1 and variant_name(deref_all(out.fields[1])) == variant_name(eps[-1][4])
            if not good: viol.setdefault('preface:accept-session', f'accept: the stream handed on is not THE encrypted session established by one noise handshake on the accepted connection, or the endpoint returned is not the one the peer asked for (observed: {kinds})')
        else:
            cns = [e for e in lg if e[0] == 'connect']; hss = [e for e in lg if e[0] == 'handshake']; eps = [e for e in lg if e[0] == 'send' and e[1] == 'Endpoint']
            good = len(cns) == 1 and len(hss) == 1 and hss[0][2] is cns[0][1] and deref_all(r.fields[0]) is hss[0][4] and len(eps) >= 1 and variant_name(eps[-1][4]) == variant_name(want)
            if not good: viol.setdefault('preface:connect-session', f'connect: the stream handed on is not THE encrypted session established by one noise handshake on the dialled connection, or the endpoint asked for is not the requested one (observed: {kinds})')
    for k, text in viol.items():
        rep.violation(F.Violation(rep.prop, k, text, None, None))
    if okpaths == 0 and not viol:
        rep.add(F.Obligation(name, 'inconclusive', 'no path completes a preface (vacuous)')); return
    rep.add(F.Obligation(name, 'violated' if viol else 'discharged', paths=len(res), wall_s=round(time.time() - t0, 1)))
    rep.samples.append(f'preface: {len(res)} paths, {okpaths} complete')
