"""C06 — progress, decided only through its LOCAL enabling obligations (engine M).

Liveness over fair infinite suffixes is not a bounded query. What is decided, for all states/inputs of one step of the
real handler code and only on paths where the environment cooperates (state backup succeeds, no engine call fails):
 - every timer expiry re-broadcasts the timeout vote of the current view and (above view 0) the new-view message with
   the highest certificate, re-arms the timer, and does not fail                     (retransmission never disappears);
 - a correctly signed new-view from a validator with an accepted certificate of a view >= the current one moves the
   replica to the following view (catch-up);
 - whenever a handler enters a new view it broadcasts the new-view for it, hands the justification to the proposer and
   restarts the view timer; an accepted proposal produces a commit vote;
 - drivers (props/replica_loop.py): the main loop times out immediately in view 0 and re-broadcasts a timeout vote whenever
   the wait for input ends by the view deadline; the proposer, woken with a justification for a view this node leads,
   creates a proposal (payload from the engine for the implied block after the previous block is persisted; none on a
   forced re-proposal) and broadcasts it, survives a timed-out creation and stops only on an internal error.
These are necessary conditions for the progress statement, not the statement; the bounded-views claim itself and the
network/block-sync layers are outside."""
from mirsym import models as M, env
from props import replica_checks as RC
import framework as F

PROP = 'C06'


def run(rep, db, tier, seed):
    rep.engines.append('mirsym (MIR symbolic execution of the handler coroutines + z3)')
    rep.trusted += M.TRUSTED + env.TRUSTED + ['certificate verification summarised by its contract (decided in C04)', 'EngineManager futures answered by contract; signing ideal; clock opaque']
    rep.assumptions += ['only paths on which the environment cooperates carry a progress obligation', 'reachable-state invariant assumed for the pre-state (see C03)',
                        'the step from these enabling conditions to "a block is committed within a bounded number of views" is not mechanised']
    rep.bounds = dict(steps=1, committee='N = 2 (quick), 2..3 (thorough), symbolic weights', caches='<= 1 entry')
    RC.run_all(rep, db, tier, ('C06',))
    # restart: nothing durable is lost (view / phase / high vote / certificates / cached proposals come back) — a replica that
    # forgets a cached proposal on restart can no longer build the block its vote helped to certify
    try:
        from props import replica_start
        replica_start.run(rep, db, tier)
    except Exception as u:
        rep.add(F.Obligation('restart restores the durable snapshot (StateMachine::start)', 'inconclusive', f'{type(u).__name__}: {u}'[:600]))
    try:
        from props import replica_loop
        replica_loop.run(rep, db, tier, ('C06',))
    except Exception as u:
        rep.add(F.Obligation('proposer / main loop drivers', 'inconclusive', f'{type(u).__name__}: {u}'[:600]))
    rep.extra['explanation'] = 'local progress (retransmission / catch-up / view-entry) obligations on the real handler MIR; liveness itself is not decided'
