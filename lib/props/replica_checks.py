"""Obligations on one replica-handler step (C03: vote discipline, monotonicity, persist-before-send; C05: certificates
monotone and valid, view changes justified, emitted messages self-justifying; C02: the reported high vote is the last
commit vote; C16: vote caches bounded). One exploration evaluates all of them; each property reports its own."""
import itertools, time, re
import z3
from mirsym.core import (Exec, explore, solve, Num, Agg, Ref, Cell, Opaque, Panic, Unmodelled, BoundExceeded, num_cmp, b_and, b_or, b_not, to_z3_bool, UNIT)
from mirsym import models as M, symgen
from mirsym.models import some, none, values_equal, MapV, VecV, deref_all
from mirsym.mk import fld, variant_name
from props import replica as R, c04
from props.c11 import panic_key
import framework as F

RANK = {0: 0, 1: 1, 2: 2}      # Phase variant index -> rank (Prepare < Commit < Timeout)


def zb(x): return to_z3_bool(x)


def opt_view(optqc, kind):
    """(is_some, view expr) of Option<CommitQC>/Option<TimeoutQC> value"""
    if optqc.variant == 0: return False, None
    qc = optqc.fields[0]
    v = fld(fld(fld(qc, 'message'), 'view'), 'number') if kind == 'c' else fld(fld(qc, 'view'), 'number')
    return True, fld(v, '0')


def inner_msg(out_msg):
    """ConsensusInputMessage { message: Signed { msg: ConsensusMsg::V2(ChonkyMsg::X(m)), .. } } -> m"""
    x = out_msg
    if isinstance(x, Agg) and (x.name or '').endswith('ConsensusInputMessage'): x = x.fields[0]
    if isinstance(x, Agg) and (x.name or '').endswith('Signed'): x = x.fields[0]
    m = c04.strip_msg(x)
    if not isinstance(m, Agg) or (m.name or '').split('::')[-1] not in ('ReplicaCommit', 'ReplicaTimeout', 'ReplicaNewView', 'LeaderProposal'):
        raise Unmodelled(f'unexpected outbound message {out_msg!r}'[:200])
    return m


def justification_of(ex, snap):
    """the certificate a replica in state `snap` must attach: higher view wins, commit certificate on ties"""
    cs, cv = opt_view(snap['cqc'], 'c'); ts, tv = opt_view(snap['tqc'], 't')
    if cs and not ts: return ('Commit', snap['cqc'].fields[0], True)
    if ts and not cs: return ('Timeout', snap['tqc'].fields[0], True)
    if not cs and not ts: return None
    return ('both', (snap['cqc'].fields[0], snap['tqc'].fields[0]), num_cmp('Ge', cv, tv))


def check_path(ex, w, handler, result, log, pre, msg_info):
    """returns list of (property, key, text, negated-obligation z3 expr) to be decided under the path condition"""
    obs = []
    post = w.snapshot()
    pv, pph = pre['view'], pre['phase']
    qv, qph = post['view'], post['phase']

    def need(prop, key, text, cond):
        obs.append((prop, key, text, cond))
    # ---- C03 (b): (view, phase) never decreases
    need('C03', f'{handler}:view-phase-decreases', 'the (view, phase) of the replica went backwards',
         z3.Or(zb(num_cmp('Gt', qv, pv)), z3.And(zb(num_cmp('Eq', qv, pv)), z3.BoolVal(RANK[qph] >= RANK[pph]))))
    # ---- C03 (c'): at the END of a step in which something left the node, the durable state records the final in-memory
    # (view, phase, high vote, certificates): a vote or phase change made after the last backup would be lost by a crash
    sent_any = any(ev[0] == 'send' for ev in log)
    lp = None
    for ev in log:
        if ev[0] == 'persist': lp = ev[1]
        elif ev[0] == 'persist_failed': lp = None
    if sent_any and lp is not None and handler != 'start_new_view':
        same_end = b_and(num_cmp('Eq', lp['view'], post['view']), lp['phase'] == post['phase'], values_equal(ex, lp['high_vote'], post['high_vote']),
                         values_equal(ex, lp['cqc'], post['cqc']), values_equal(ex, lp['tqc'], post['tqc']))
        need('C03', f'{handler}:stale-backup:final-state', 'messages left the node but the state made durable last differs from the in-memory state at the end of the step (a view / phase / vote change after the backup would be lost by a crash)', zb(same_end))
    # ---- effect log
    last_persist = None
    for i, ev in enumerate(log):
        if ev[0] == 'persist': last_persist = ev[1]; continue
        if ev[0] == 'persist_failed': last_persist = None; continue
        if ev[0] != 'send': continue
        signed, snap = ev[1], ev[2]
        m = inner_msg(signed)
        kind = (m.name or '').split('::')[-1]
        # C03 (c): persist-before-send — the state the message was derived from is durable
        if last_persist is None:
            need('C03', f'{handler}:send-without-persist:{kind}', f'a {kind} message leaves the node with no successful state backup before it', z3.BoolVal(False))
        else:
            ps = last_persist
            same = b_and(num_cmp('Eq', ps['view'], snap['view']), ps['phase'] == snap['phase'], values_equal(ex, ps['high_vote'], snap['high_vote']),
                         values_equal(ex, ps['cqc'], snap['cqc']), values_equal(ex, ps['tqc'], snap['tqc']), num_cmp('Eq', ps['epoch'], w.e0))
            need('C03', f'{handler}:stale-backup:{kind}', f'the state made durable before the {kind} message differs from the state it was derived from (view/phase/high vote/certificates/epoch)', zb(same))
        if kind == 'ReplicaCommit':
            vv = fld(fld(fld(m, 'view'), 'number'), '0')
            need('C03', f'{handler}:commit-vote-in-spent-view', 'a commit vote is signed for a view in which the replica already voted or timed out (or an earlier view)',
                 z3.Or(zb(num_cmp('Lt', pv, vv)), z3.And(zb(num_cmp('Eq', pv, vv)), z3.BoolVal(pph == 0))))
            need('C03', f'{handler}:commit-vote-not-recorded', 'the state the commit vote was derived from does not have view = vote view and phase = Commit',
                 z3.And(zb(num_cmp('Eq', snap['view'], vv)), z3.BoolVal(snap['phase'] == 1)))
            need('C03', f'{handler}:commit-vote-not-high-vote', 'the state the commit vote was derived from does not record it as the high vote',
                 zb(values_equal(ex, snap['high_vote'], some(m))))
            need('C02', f'{handler}:high-vote-not-latest', 'after signing a commit vote the replica does not report it as its high vote',
                 zb(values_equal(ex, post['high_vote'], some(m))))
        elif kind == 'ReplicaTimeout':
            tv = fld(fld(fld(m, 'view'), 'number'), '0')
            need('C03', f'{handler}:timeout-vote-discipline', 'a timeout vote is signed while the recorded phase is not Timeout, or it does not carry the replica\'s view / high vote / high certificate',
                 z3.And(z3.BoolVal(snap['phase'] == 2), zb(num_cmp('Eq', tv, snap['view'])), zb(values_equal(ex, fld(m, 'high_vote'), snap['high_vote'])),
                        zb(values_equal(ex, fld(m, 'high_qc'), snap['cqc'])), zb(values_equal(ex, fld(fld(m, 'view'), 'genesis'), Opaque(w.g0))),
                        zb(num_cmp('Eq', fld(fld(fld(m, 'view'), 'epoch'), '0'), w.e0))))
        elif kind == 'ReplicaNewView':
            j = fld(m, 'justification')
            want = justification_of(ex, snap)
            if want is None:
                need('C05', f'{handler}:new-view-unjustified', 'a new-view message is emitted although the replica holds no certificate', z3.BoolVal(False))
            else:
                jk = variant_name(j)
                if want[0] == 'both':
                    c, t = want[1]
                    good = z3.If(zb(want[2]), zb(values_equal(ex, j.fields[0], c) if jk == 'Commit' else False), zb(values_equal(ex, j.fields[0], t) if jk == 'Timeout' else False))
                else:
                    good = zb(values_equal(ex, j.fields[0], want[1]) if jk == want[0] else False)
                need('C05', f'{handler}:new-view-not-highest-certificate', 'the new-view message does not carry the highest certificate the replica holds (commit certificate on ties)', good)
    # ---- C05: certificates held never decrease, and are only replaced by accepted ones
    for kind, name in (('c', 'cqc'), ('t', 'tqc')):
        ps, pvw = opt_view(pre_snap(w)[name], kind); qs, qvw = opt_view(post[name], kind)
        if ps and not qs:
            need('C05', f'{handler}:{name}-dropped', f'the replica forgot its high {name}', z3.BoolVal(False))
        elif ps and qs:
            need('C05', f'{handler}:{name}-decreases', f'the view of the high {name} decreased', zb(num_cmp('Ge', qvw, pvw)))
        if qs:
            ghost = fld(post[name].fields[0], 'signature')
            changed = True if not ps else b_not(values_equal(ex, post[name], pre_snap(w)[name]))
            acc = accept_of(w, post[name].fields[0], kind)
            need('C05', f'{handler}:{name}-unverified', f'the replica adopted a {name} that did not pass verification', z3.Implies(zb(changed), zb(acc)))
    # ---- C05 (specification conformance): an accepted message hands its certificates to the replica — process_commit_qc /
    # process_timeout_qc of the spec are unconditional: afterwards the replica holds certificates at least as high
    if handler in ('on_new_view', 'on_proposal') and result != 'pending' and result.variant == 0 and 'just' in msg_info:
        d = msg_info['just']; jk = msg_info['just_kind']
        pcs, pcv = opt_view(post['cqc'], 'c'); pts, ptv = opt_view(post['tqc'], 't')
        if jk == 'Commit':
            need('C05', f'{handler}:certificate-not-absorbed', 'the message was accepted but the commit certificate it carries was not adopted (the replica holds no commit certificate at least as high)',
                 zb(num_cmp('Ge', pcv, d['view'])) if pcs else z3.BoolVal(False))
        else:
            need('C05', f'{handler}:certificate-not-absorbed', 'the message was accepted but the timeout certificate it carries was not adopted (the replica holds no timeout certificate at least as high)',
                 zb(num_cmp('Ge', ptv, d['view'])) if pts else z3.BoolVal(False))
            if d.get('hq') is not None:
                need('C05', f'{handler}:certificate-not-absorbed', 'the message was accepted but the commit certificate inside its timeout certificate was not adopted (the replica holds no commit certificate at least as high)',
                     zb(num_cmp('Ge', pcv, d['hq']['view'])) if pcs else z3.BoolVal(False))
    # ---- C05: a view change is justified by an accepted certificate of the preceding view
    cs, cv = opt_view(post['cqc'], 'c'); ts, tv = opt_view(post['tqc'], 't')
    just = []
    if cs: just.append(zb(num_cmp('Eq', qv, Num(cv.e + 1 if not cv.concrete else cv.e + 1, 64))))
    if ts: just.append(zb(num_cmp('Eq', qv, Num(tv.e + 1, 64))))
    # ... held afterwards, or — when the replica already holds a HIGHER certificate of that kind, so that the one that triggered the
    # change is not retained — carried by the accepted input (new-view / proposal justification), or formed in this step from
    # the votes for the input's view (on_commit / on_timeout: the view entered is the successor of the vote's view and a
    # certificate of that kind for that view or a later one is held)
    seen = list(just)
    if handler in ('on_new_view', 'on_proposal') and 'just' in msg_info:
        dj = msg_info['just']
        seen.append(z3.And(z3.BoolVal(dj['accept']) if isinstance(dj['accept'], bool) else zb(dj['accept']), qv.e == dj['view'].e + 1))
    if handler == 'on_commit' and cs: seen.append(z3.And(qv.e == msg_info['msg']['view'].e + 1, cv.e >= msg_info['msg']['view'].e))
    if handler == 'on_timeout' and ts: seen.append(z3.And(qv.e == msg_info['tmsg']['view'].e + 1, tv.e >= msg_info['tmsg']['view'].e))
    need('C05', f'{handler}:view-change-unjustified', 'the replica moved to a new view without a certificate for the preceding view (neither held afterwards, nor carried by the accepted input, nor formed from the votes for the input\'s view)',
         z3.Or(zb(num_cmp('Eq', qv, pv)), *seen))
    # ---- inductiveness: the reachable-state invariant every handler exploration ASSUMES of its pre-state (World.state) holds again
    # of the post-state, so that one-step verdicts compose over runs of any length. Only where the replica carries on: a failed
    # engine call ends the replica task, and the restart reads the durable state (C03 d).
    evs_ = [e[0] for e in log]
    if result != 'pending' and 'persist_failed' not in evs_ and 'env_fail' not in evs_:
        inv = []; j2 = [zb(num_cmp('Eq', qv, Num(0, 64)))]
        if ts: inv.append(zb(num_cmp('Lt', tv, qv))); j2.append(zb(num_cmp('Eq', qv, Num(tv.e + 1, 64))))
        if cs: j2.append(zb(num_cmp('Ge', Num(cv.e + 1, 64), qv)))
        inv.append(z3.Or(*j2))
        need('C05', f'{handler}:state-invariant-broken:certificates', 'after the step the replica holds a timeout certificate of its own or a later view, or the view it is in is not justified by a certificate it holds (timeout certificate of the preceding view, or a commit certificate of the preceding or a later view)', z3.And(*inv))
        phv = post['high_vote']
        if phv.variant == 1:
            hvv = fld(fld(fld(phv.fields[0], 'view'), 'number'), '0')
            need('C03', f'{handler}:state-invariant-broken:high-vote', 'after the step the recorded high vote is for a view above the replica\'s view', zb(num_cmp('Le', hvv, qv)))
        voted = any(ev[0] == 'send' and (inner_msg(ev[1]).name or '').endswith('ReplicaCommit') for ev in log)
        if not voted:
            need('C02', f'{handler}:high-vote-lost', 'the recorded high vote changed although no commit vote was cast in this step (the lock a timeout vote must report is forgotten or rewritten)',
                 zb(values_equal(ex, phv, pre_snap(w)['high_vote'])))
    # ---- C05 (accept / reject class): an input the specification refuses — signer not in the committee, bad signature, another
    # chain or epoch, a view already left behind, an unverifiable certificate, a proposal by the wrong leader or for a view the
    # replica already voted or timed out in — is refused, changes nothing and makes nothing leave the node
    if result != 'pending' and handler in ('on_commit', 'on_timeout', 'on_new_view', 'on_proposal'):
        zacc = lambda d: (z3.BoolVal(d['accept']) if isinstance(d['accept'], bool) else zb(d['accept']))
        badc = [z3.BoolVal(msg_info['author'] >= w.N), z3.Not(msg_info['sig_ok'])]
        if handler == 'on_commit':
            d = msg_info['msg']; badc += [d['g'] != w.g0, d['e'].e != w.e0.e, d['view'].e < pv.e]
        elif handler == 'on_timeout':
            d = msg_info['tmsg']; badc += [d['g'] != w.g0, d['e'].e != w.e0.e, d['view'].e < pv.e]
            if d.get('hq') is not None: badc.append(z3.Not(zacc(d['hq'])))
        else:
            d = msg_info['just']; badc += [z3.Not(zacc(d)), d['view'].e + 1 < pv.e]
            if handler == 'on_proposal':
                badc += [z3.And(d['view'].e + 1 == pv.e, z3.BoolVal(pph != 0))]
                if msg_info['author'] < w.N: badc.append((d['view'].e + 1) % w.N != msg_info['author'])
        untouched = b_and(num_cmp('Eq', qv, pv), qph == pph, values_equal(ex, post['high_vote'], pre_snap(w)['high_vote']),
                          values_equal(ex, post['cqc'], pre_snap(w)['cqc']), values_equal(ex, post['tqc'], pre_snap(w)['tqc']))
        quiet = not any(ev[0] in ('send', 'persist', 'queue_block') for ev in log)
        need('C05', f'{handler}:invalid-input-acted-on', 'an input the specification refuses (non-member or badly signed sender, other chain / epoch, stale view, unverifiable certificate, wrong leader, view already voted in) was accepted, changed the replica state or made something leave the node',
             z3.Implies(z3.Or(*badc), z3.And(z3.BoolVal(result.variant == 1 and quiet), zb(untouched))))
    # ---- C16 part 2: vote caches bounded by the committee size
    sm = w.sm_cell.v
    for cname in ('commit_views_cache', 'timeout_views_cache'):
        c = fld(sm, cname)
        need('C16', f'{handler}:{cname}-unbounded', f'{cname} holds more than one entry per validator', z3.BoolVal(len(c.entries) <= w.N))
    for cname, vc in (('commit_qcs_cache', 'commit_views_cache'), ('timeout_qcs_cache', 'timeout_views_cache')):
        c = fld(sm, cname); views = fld(sm, vc)
        conds = []
        for k, cell in c.entries:
            kv = fld(k, '0')
            conds.append(z3.Or(*[zb(num_cmp('Eq', kv, fld(vcell.v, '0'))) for _, vcell in views.entries]) if views.entries else z3.BoolVal(False))
        need('C16', f'{handler}:{cname}-unbounded', f'{cname} keeps certificates under construction for views no validator is voting in', z3.And(*conds) if conds else z3.BoolVal(True))
    # ---- C06: local progress obligations (only on paths where the environment cooperates)
    import sys
    from props import replica_progress
    obs += replica_progress.obligations(sys.modules[__name__], ex, w, handler, result, log, pre, msg_info, post)
    return obs


def field_index(agg, name):
    fs = agg.ty['info']['variants'][agg.variant]['fields']
    return [f['name'] for f in fs].index(name)


def pre_snap(w):
    return w.pre_snapshot


def accept_of(w, qc, kind):
    """acceptance condition of a certificate value (ghost validity and chain/epoch)"""
    ghost = fld(qc, 'signature')
    view = fld(fld(qc, 'message'), 'view') if kind == 'c' else fld(qc, 'view')
    if isinstance(ghost, c04.GhostAgg):
        # a certificate assembled by the real add(): genuine iff only valid votes were aggregated and the weight reaches the quorum
        if kind == 'c':
            bits = list(fld(fld(qc, 'signers'), '0').bits)
        else:
            bits = [False] * w.N
            for k, c in fld(qc, 'map').entries:
                bits = [b_or(x, y) for x, y in zip(bits, fld(c.v, '0').bits)]
        wsum = sum((z3.If(zb(b), x.e, 0) for b, x in zip(bits, w.ws)), z3.IntVal(0))
        valid = b_and(ghost.junk is False, wsum >= w.q)
    else:
        valid = ghost.valid
    return b_and(valid, values_equal(w.ex, fld(view, 'genesis'), Opaque(w.g0)), num_cmp('Eq', fld(fld(view, 'epoch'), '0'), w.e0))


# ------------------------------------------------------------------------------------------------ inputs per handler
def build_input(ex, w, handler, N, pfx='in'):
    """symbolic input of one handler; `pfx` prefixes every solver symbol of the message (a second message of a sequence uses another prefix)"""
    mk = w.mkr
    if handler == 'on_proposal':
        if ex.choose(2, 'just') == 0:
            qc, d = w.commit_qc(f'{pfx}_qc'); just = mk.adt(R.V + r'v2::leader_proposal::ProposalJustification', 'Commit', _0=qc)
        else:
            t, d = w.timeout_qc(f'{pfx}_tqc'); just = mk.adt(R.V + r'v2::leader_proposal::ProposalJustification', 'Timeout', _0=t)
        payload = some(mk.tuple_struct(R.V + r'block::Payload', symgen.BytesV(ex.fresh(f'{pfx}_payload_len' if pfx != 'in' else 'payload_len')))) if ex.choose(2, 'payload') == 0 else none()
        lp = mk.adt(R.V + r'v2::leader_proposal::LeaderProposal', proposal_payload=payload, justification=just)
        author = ex.choose(N + 1, 'author')
        signed, sok = w.signed(lp, author, pfx)
        return [signed], dict(just=d, just_kind=variant_name(just), payload=payload.variant == 1, author=author, sig_ok=sok)
    if handler == 'on_new_view':
        if ex.choose(2, 'just') == 0:
            qc, d = w.commit_qc(f'{pfx}_qc'); just = mk.adt(R.V + r'v2::leader_proposal::ProposalJustification', 'Commit', _0=qc)
        else:
            t, d = w.timeout_qc(f'{pfx}_tqc'); just = mk.adt(R.V + r'v2::leader_proposal::ProposalJustification', 'Timeout', _0=t)
        nv = mk.adt(R.V + r'v2::replica_new_view::ReplicaNewView', justification=just)
        author = ex.choose(N + 1, 'author')
        signed, sok = w.signed(nv, author, pfx)
        return [signed], dict(just=d, just_kind=variant_name(just), author=author, sig_ok=sok)
    if handler == 'on_commit':
        msg, d = w.replica_commit(pfx, z3.Int(f'{pfx}_g'), w.num(f'{pfx}_e'))
        author = ex.choose(N + 1, 'author')
        signed, sok = w.signed(msg, author, pfx)
        return [signed], dict(msg=d, author=author, sig_ok=sok)
    if handler == 'on_timeout':
        g = z3.Int(f'{pfx}_g'); e = w.num(f'{pfx}_e'); v = w.num(f'{pfx}_view')
        hv = none(); hq = none(); hvd = None; hqd = None
        if getattr(w, 'light', False):
            pass
        elif ex.choose(2, f'{pfx}_hv') == 0:
            hvv, hvd = w.replica_commit(f'{pfx}_hv', g, e); hv = some(hvv)
        if not getattr(w, 'light', False) and ex.choose(2, f'{pfx}_hq') == 0:
            hqv, hqd = w.commit_qc(f'{pfx}_hq'); hq = some(hqv)
        msg = mk.adt(R.V + r'v2::replica_timeout::ReplicaTimeout', view=w.view(g, v, e), high_vote=hv, high_qc=hq)
        author = ex.choose(N + 1, 'author')
        signed, sok = w.signed(msg, author, pfx)
        return [signed], dict(tmsg=dict(view=v, g=g, e=e, hv=hvd, hq=hqd), author=author, sig_ok=sok)
    if handler == 'start_timeout':
        return [], {}
    if handler == 'start_new_view':
        nv = w.num('new_view')
        return [mk.tuple_struct(R.V + r'consensus::ViewNumber', nv)], dict(new_view=nv)
    raise KeyError(handler)


def caches_for(ex, w, handler, N, rich=False):
    """small symbolic vote caches (<= 1 entry each) for the vote handlers"""
    if handler not in ('on_commit', 'on_timeout'):
        return None
    mk = w.mkr
    caches = {}
    kind = 'commit' if handler == 'on_commit' else 'timeout'
    if not rich:
        if ex.choose(2, 'cache') == 0:
            ki = ex.choose(N, 'cache_key')
            cv = w.num('cache_view')
            caches[f'{kind}_views'] = MapV([(w.key(ki), mk.tuple_struct(R.V + r'consensus::ViewNumber', cv))], True)
        return caches
    n = ex.choose(3, 'cache_entries')          # 0, 1 or 2 validators have voted before
    if n:
        keys = [(0,), (1,), (0, 1)][ex.choose(3, 'cache_keys')] if n == 1 and N >= 2 else tuple(range(min(n, N)))
        if n == 1: keys = keys[:1]
        views = [w.num(f'cache_view{i}') for i in range(len(keys))]
        caches[f'{kind}_views'] = MapV([(w.key(k), mk.tuple_struct(R.V + r'consensus::ViewNumber', v)) for k, v in zip(keys, views)], True)
        # certificates under construction exist only for views some validator voted in (cache invariant); here: for each such view (distinct, ascending)
        if len(views) == 2: ex.assume(views[0].e < views[1].e)
        qc_mode = ex.choose(3, 'qcs_cache')          # 0: empty certificates per voted view, 1: certificates with their signers, 2: no certificates cached
        if qc_mode in (0, 1):
            ents = []
            for vi, v in enumerate(views):
                if qc_mode == 0:
                    inner = MapV([], True) if kind == 'commit' else w.timeout_qc_empty(v)
                else:
                    # signers of the certificate under construction for view v: everybody whose latest vote IS for v, and possibly
                    # validators that voted for v earlier and have moved on to a later view since (their latest view is higher)
                    bits = [False] * N
                    for j, k in enumerate(keys):
                        if j == vi: bits[k] = True
                        elif j > vi and ex.choose(2, f'signed_earlier_{vi}_{j}') == 0: bits[k] = True
                    signers = mk.tuple_struct(R.V + r'v2::consensus::Signers', M.BitVecV(bits))
                    if kind == 'commit':
                        msg = mk.adt(R.V + r'v2::replica_commit::ReplicaCommit', view=w.view(w.g0, v, w.e0), proposal=w.header(w.num(f'cache_qc{vi}_num'), z3.Int(f'cache_qc{vi}_hash')))
                        qc = mk.adt(R.V + r'v2::replica_commit::CommitQC', message=msg, signers=signers, signature=c04.GhostAgg(groups=[], covers=[]))
                        inner = MapV([(msg, qc)], True)
                    else:
                        msg = mk.adt(R.V + r'v2::replica_timeout::ReplicaTimeout', view=w.view(w.g0, v, w.e0), high_vote=none(), high_qc=none())
                        inner = mk.adt(R.V + r'v2::replica_timeout::TimeoutQC', view=w.view(w.g0, v, w.e0), map=MapV([(msg, signers)], ordered=True), signature=c04.GhostAgg(groups=[], covers=[]))
                ents.append((mk.tuple_struct(R.V + r'consensus::ViewNumber', v), inner))
            caches[f'{kind}_qcs'] = MapV(ents, True)
    return caches


_DB = [None]


def run_one(arg):
    """worker: one handler, one committee size, one preset of the top-level state choices"""
    handler, N, budget = arg[:3]
    mode = arg[3] if len(arg) > 3 else 'full'
    wanted = set(arg[4]) if len(arg) > 4 and arg[4] else None
    db = _DB[0]
    ex = Exec(db, loop_bound=60)
    holder = [None]
    R.install(ex, db, lambda: holder[0])
    t0 = time.time()

    def body(ex):
        w = R.World(ex, db, N); holder[0] = w; w.light = (mode == 'caches')
        caches = caches_for(ex, w, handler, N, rich=(mode == 'caches'))
        w.state(caches, light=(mode == 'caches')); w.has_cache = bool(caches)
        if handler == 'start_new_view':
            # called by the replica right after it adopted a (verified) certificate of view new_view - 1 >= its view
            if ex.choose(2, 'adopted') == 0:
                c, d = w.commit_qc('new_cqc', own=True)
                w.sm_cell.v.fields[field_index(w.sm_cell.v, 'high_commit_qc')] = some(c)
            else:
                c, d = w.timeout_qc('new_tqc', own=True, with_votes=False)
                w.sm_cell.v.fields[field_index(w.sm_cell.v, 'high_timeout_qc')] = some(c)
            ex.assume(d['view'].e >= w.pre['view'].e)
            w.adopted_view = d['view']
        w.pre_snapshot = w.snapshot()
        args, info = build_input(ex, w, handler, N)
        if handler == 'start_new_view':
            ex.assume(info['new_view'].e == w.adopted_view.e + 1)
        r = R.run_handler(ex, db, w, handler, args)
        obs = check_path(ex, w, handler, r, list(w.log), w.pre, info)
        return r, obs, [e[0] for e in w.log], w, info
    out = dict(handler=handler, N=N, viol=[], status='discharged')
    try:
        res = explore(ex, body, max_paths=200000, budget_s=budget)
    except BoundExceeded as b:
        out.update(status='inconclusive', detail=str(b)[:400], stats=F.stats_dict(ex.stats)); return out
    except Unmodelled as u:
        out.update(status='inconclusive', detail=str(u)[:600], stats=F.stats_dict(ex.stats)); return out
    seen = set(); nontriv = 0; outcomes = {}
    for kind, val, pc, log in res:
        if kind == 'panic':
            st, m = solve(pc, None)
            if st == 'sat':
                k = panic_key(val)
                if k not in seen and (wanted is None or 'C10' in wanted):
                    seen.add(k); out['viol'].append(dict(prop='C10', key=f'{handler}:{k}', text=f'{handler} panics: {val[0]} at {val[1]}', witness=witness(m)))
            continue
        r, obs, evs, wref, inforef = val
        if 'send' in evs: nontriv += 1
        oc = (str(r)[:40], tuple(evs)); outcomes[oc] = outcomes.get(oc, 0) + 1
        for prop, key, text, cond in obs:
            if key in seen or (wanted is not None and prop not in wanted): continue
            if z3.is_true(z3.simplify(cond)): continue
            st, m = solve(pc, z3.Not(cond))
            if st == 'sat':
                seen.add(key)
                conc = None
                try:
                    conc = concretize(m, wref, handler, inforef, N, evs) if mode == 'full' else None
                except Exception as ex_:
                    conc = None
                out['viol'].append(dict(prop=prop, key=key, text=f'{text} (handler {handler}, N={N})', witness=witness(m), events=evs, replay=conc))
            elif st != 'unsat':
                out['status'] = 'inconclusive'; out['detail'] = f'solver: {m}'
    if out['viol']: out['status'] = 'violated'
    out.update(paths=len(res), nontrivial=nontriv, stats=F.stats_dict(ex.stats), wall_s=round(time.time() - t0, 1),
               outcomes=sorted(((v, k[0], list(k[1])) for k, v in outcomes.items()), reverse=True)[:12])
    return out


def concretize(m, w, handler, info, N, evs=()):
    """concrete description of a counterexample for the replay generator (plain python data)"""
    def iv(e):
        if e is None: return None
        e = e.e if isinstance(e, Num) else e
        if isinstance(e, (int, bool)): return e
        v = m.eval(e, model_completion=True)
        if z3.is_true(v): return True
        if z3.is_false(v): return False
        return v.as_long()
    g0 = iv(w.g0); e0 = iv(w.e0.e)
    def rc(d):
        if d is None: return None
        return dict(view=iv(d['view']), num=iv(d['num']), hash=iv(d['hash']) % 1000, g_ok=(iv(d['g']) == g0), e_ok=(iv(d['e'].e if isinstance(d['e'], Num) else d['e']) == e0), valid=bool(iv(d.get('valid', True))))
    def tq(d):
        if d is None: return None
        return dict(view=iv(d['view']), g_ok=(iv(d['g']) == g0), e_ok=(iv(d['e'].e if isinstance(d['e'], Num) else d['e']) == e0), valid=bool(iv(d['valid'])), hv=rc(d.get('hv')), hq=rc(d.get('hq')))
    pre = w.pre
    out = dict(handler=handler, N=N, weights=[max(1, iv(x.e)) for x in w.ws], first_block=iv(w.first_block.e),
               pre=dict(view=iv(pre['view']), phase=pre['phase'], hv=rc(pre['hv']), cqc=rc(pre['cqc']), tqc=tq(pre['tqc'])))
    out['has_cache'] = bool(getattr(w, 'has_cache', False))
    out['set_state_plan'] = [e == 'persist' for e in evs if e in ('persist', 'persist_failed')]
    out['reject_payload'] = any(e[0] == 'env_fail' and e[1] == 'verify_payload' for e in w.log)
    out['other_env_failure'] = any(e[0] == 'env_fail' and e[1] != 'verify_payload' for e in w.log)
    if 'author' in info: out['author'] = info['author']; out['sig_ok'] = bool(iv(info['sig_ok']))
    if handler in ('on_proposal', 'on_new_view'):
        out['just_kind'] = info['just_kind']; out['just'] = rc(info['just']) if info['just_kind'] == 'Commit' else tq(info['just'])
        out['payload'] = info.get('payload', False)
        ph = None
        for d in m.decls():
            if d.name() == 'payload_hash': ph = m[d].as_long() % 1000
        out['payload_hash'] = ph if ph is not None else 7
    if handler == 'on_commit': out['msg'] = rc(info['msg'])
    if handler == 'on_timeout':
        t = info['tmsg']; out['tmsg'] = dict(view=iv(t['view']), g_ok=(iv(t['g']) == g0), e_ok=(iv(t['e'].e) == e0), hv=rc(t['hv']), hq=rc(t['hq']))
    return out


def witness(m):
    if m is None: return ''
    return ', '.join(f'{d.name()}={m[d]}' for d in sorted(m.decls(), key=lambda d: d.name()) if d.arity() == 0 and not re.match(r'k!|shape|.*!\d+$', d.name()))[:700]


def run_all(rep, db, tier, props, handlers=('start_timeout', 'start_new_view', 'on_new_view', 'on_commit', 'on_timeout', 'on_proposal'), mode='full'):
    """explore every handler and report the obligations belonging to `props`"""
    _DB[0] = db
    Ns = [2] if tier == 'quick' else [2, 3]
    budget = 1500 if tier == 'quick' else 6000
    jobs = [(h, N, budget, mode, tuple(props)) for N in Ns for h in handlers]
    outs = F.parallel_map(run_one, jobs, workers=min(len(jobs), 12))
    for o in outs:
        if 'stats' in o: F.absorb_stats_dict(rep, o['stats'])
        name = f'{o["handler"]} one step from an arbitrary state, N={o["N"]}'
        mine = [v for v in o['viol'] if v['prop'] in props]
        if o['status'] == 'inconclusive':
            rep.add(F.Obligation(name, 'inconclusive', o.get('detail', ''))); continue
        rep.nontrivial += o.get('nontrivial', 0)
        for v in list(mine):
            if ':state-invariant-broken' in v['key']:
                # the pre-state invariant is this check's own induction hypothesis, not the property: a step that leaves it means the
                # one-step verdicts no longer compose (the reachable states are more than the harness explores) — nothing is claimed
                rep.add(F.Obligation('inductiveness of the assumed pre-state invariant (' + v['key'] + ')', 'inconclusive', v['text'] + ' | witness: ' + v['witness']))
                mine.remove(v)
        for v in mine:
            path = None; repro = None
            from props import replica_replay
            if v.get('replay') and (replica_replay.key_class(v['key']) is not None or v['prop'] == 'C10'):
                try:
                    import replay as RP
                    src = replica_replay.gen(v['replay'], v['key'])
                    rr = RP.run_replay(f'{rep.prop.lower()}_h{len(rep.violations) + len(rep.known_hits)}', src, rustflags='--cfg era_consensus_verif'); rep.replayed += 1
                    path = rr['path']
                    cls = 'panic' if v['prop'] == 'C10' else replica_replay.key_class(v['key'])
                    outp = rr['output']
                    hit = (f'[{cls}]' in outp) if cls != 'panic' else ('panicked at' in outp and 'step obligations violated' not in outp)
                    unforceable = (['engine call'] if v['replay'].get('other_env_failure') else []) + (['vote cache'] if v['replay'].get('has_cache') else [])
                    if rr['reproduced'] is True and hit:
                        repro = True; v['text'] += ' | replay: reproduced on the real replica (step API)'
                    elif rr['reproduced'] is None:
                        rep.add(F.Obligation('replay ' + v['key'], 'inconclusive', 'replay harness failed: ' + outp[-1500:]))
                        v['text'] += ' | replay: harness failed to build or run'
                    elif unforceable:
                        v['text'] += ' | replay: not reproducible by the step replay (the path needs wait_until_persisted / queue_block to fail, which the in-memory store never does, or a non-empty vote cache, which a restart empties); solver witness only'
                    else:
                        repro = False; v['text'] += ' | replay: the real replica did not violate this obligation on the concretised witness'
                except Exception as ex_:
                    v['text'] += f' | replay generation failed: {type(ex_).__name__}: {ex_}'
            rep.violation(F.Violation(rep.prop, v['key'], v['text'] + ' | witness: ' + v['witness'], path, repro))
        rep.add(F.Obligation(name, 'violated' if mine else 'discharged', paths=o.get('paths'), wall_s=o.get('wall_s'), outcomes=o.get('outcomes')))
        if len(rep.samples) < 8 and o.get('outcomes'):
            rep.samples.append(f'{o["handler"]} N={o["N"]}: {o["paths"]} paths; most frequent outcomes {o["outcomes"][:3]}')
    return outs
