"""Execution of `async fn` state machines (coroutine MIR) with the awaited environment futures answered by contract.

A coroutine value is polled by running its real body MIR. Futures of the environment (context cancellation, locks,
watch waits, sleeps, channel receives, engine calls) are `EnvFuture` objects whose `respond` returns Ready(value) per
the documented contract of the awaited operation, or Pending; a top-level Pending is reported as outcome 'pending'.
"""
import z3
from mirsym.core import Agg, Ref, Cell, Opaque, Unmodelled, UNIT, Num
from mirsym import models as M
from mirsym.models import ok, err, ready, pending, some, none, deref_all

CANCELED = Agg('adt', 'Canceled', 0, [])


class EnvFuture:
    def __init__(self, kind, respond, args=None):
        self.kind = kind; self.respond = respond; self.args = args; self.done = False

    def __repr__(self): return f'EnvFuture({self.kind})'
    def py_clone(self, ex): return self


class WatchReceiver:
    """tokio::sync::watch::Receiver<T>"""
    def __init__(self, watch): self.watch = watch
    def py_clone(self, ex): return WatchReceiver(self.watch)


class WatchRef:
    """tokio::sync::watch::Ref<'_, T>: derefs to the current value"""
    def __init__(self, watch): self.watch = watch
    def deref(self): return self.watch.cell.v
    def deref_ref(self): return Ref(self.watch.cell)
    def deref_set(self, nv): self.watch.cell.v = nv


def pin(v):
    return Agg('adt', 'Pin', 0, [v])


def unpin(v):
    v = v
    while isinstance(v, Agg) and v.name == 'Pin': v = v.fields[0]
    return v


def poll_value(ex, fut_ref):
    """poll a future given a reference to it; returns Poll"""
    f = fut_ref.get() if isinstance(fut_ref, Ref) else fut_ref
    while isinstance(f, Ref): fut_ref = f; f = f.get()
    if isinstance(f, M.BoxV): fut_ref = Ref(f.cell); f = f.cell.v
    if isinstance(f, EnvFuture):
        return f.respond(ex)
    if isinstance(f, Agg) and f.kind == 'coroutine':
        if f.body_key is None: raise Unmodelled(f'coroutine {f.name} has no body')
        return ex.call_key(f.body_key, [pin(fut_ref), Ref(Cell(Opaque('task_context')))])
    if isinstance(f, Agg) and f.name == 'Pin':
        return poll_value(ex, f.fields[0])
    if isinstance(f, Agg) and f.kind == 'adt' and hasattr(ex, 'poll_adt'):
        r = ex.poll_adt(ex, f, fut_ref)
        if r is not NotImplemented: return r
    raise Unmodelled(f'poll of {type(f).__name__} {f!r}'[:200])


def install_futures(ex):
    if getattr(ex, '_futures_installed', False): return
    ex._futures_installed = True

    def m_poll(e, n, a):
        target = unpin(a[0])
        f = target.get() if isinstance(target, Ref) else target
        while isinstance(f, Ref) or (isinstance(f, Agg) and f.name == 'Pin'):
            # &mut Pin<Box<dyn Future>> (async_trait futures answered by the environment)
            if isinstance(f, Ref): target = f; f = f.get()
            else: target = f.fields[0]; f = target.get() if isinstance(target, Ref) else target
        if isinstance(f, (EnvFuture, M.BoxV)) or (isinstance(f, Agg) and f.kind == 'coroutine' and not (f.body_key and f.body_key in e.db.by_key and False)):
            if isinstance(f, Agg) and f.kind == 'coroutine':
                return NotImplemented           # the resolved instance is the coroutine body itself: run the real MIR
            return poll_value(e, target)
        return NotImplemented
    ex.model(r'<.* as std::future::Future>::poll', m_poll)

    def m_poll_unresolved(e, n, a):
        # the callee could not be resolved statically (e.g. a future type that mentions an unnameable closure): dispatch on the value
        target = unpin(a[0])
        return poll_value(e, target if isinstance(target, Ref) else Ref(Cell(target)))
    ex.model(r'std::future::Future::poll', m_poll_unresolved)
    ex.model(r'.*::\{closure#\d+\}', lambda e, n, a: m_poll(e, n, a) if (len(a) == 2 and isinstance(a[0], Agg) and a[0].name == 'Pin') else NotImplemented)
    ex.model(r'std::pin::Pin::<.*>::(new_unchecked|new)', lambda e, n, a: pin(a[0]))
    ex.model(r'std::pin::Pin::<.*>::(as_mut|as_ref)', lambda e, n, a: pin(unpin(a[0].get() if isinstance(a[0], Ref) else a[0])))
    ex.model(r'std::pin::Pin::<.*>::(get_mut|get_unchecked_mut|into_inner|get_ref|into_ref|map_unchecked_mut.*)', lambda e, n, a: unpin(a[0]))
    ex.model(r'<std::pin::Pin<.*> as std::ops::Deref(Mut)?>::deref(_mut)?', lambda e, n, a: unpin(a[0].get() if isinstance(a[0], Ref) else a[0]))
    ex.model(r'<.* as std::future::IntoFuture>::into_future', lambda e, n, a: a[0])
    ex.model(r'std::future::ready::<.*>', lambda e, n, a: EnvFuture('ready', lambda e2: ready(a[0])))
    ex.model(r'std::task::Context::<\'_>::.*|std::task::Waker::.*|<std::task::Waker as .*', lambda e, n, a: Opaque('waker'))
    # ---- zksync_concurrency primitives by contract
    def ctx_wait(e, n, a):
        # Ctx::wait(fut): Ok(output of fut) or Err(Canceled) when the context is cancelled first
        inner = a[1]
        def respond(e2):
            r = poll_value(e2, Ref(Cell(inner)) if not isinstance(inner, Ref) else inner)
            if r.variant == 0: return ready(ok(r.fields[0]))
            # inner future is not ready: the wait either stays pending or is cancelled
            if getattr(e2, 'allow_cancel', True) and e2.choose(2, 'ctx_cancel') == 0: return ready(err(CANCELED))
            return pending()
        return EnvFuture('ctx.wait', respond)
    ex.model_path('zksync_concurrency::ctx::Ctx::wait', ctx_wait)
    ex.model(r'zksync_concurrency::ctx::Ctx::canceled', lambda e, n, a: EnvFuture('canceled', lambda e2: ready(UNIT) if e2.choose(2, 'is_canceled') == 0 else pending()))
    ex.model(r'zksync_concurrency::ctx::Ctx::is_active', lambda e, n, a: e.choose(2, 'is_active') == 0)

    def wait_for(e, n, a):
        # sync::wait_for(ctx, &mut watch::Receiver<T>, pred) -> OrCanceled<watch::Ref<T>>
        recv = deref_all(a[1]); pred = a[2]
        watch = recv.watch if hasattr(recv, 'watch') else recv
        def respond(e2):
            holds = e2.call_closure(pred, [Ref(watch.cell)])
            if e2.branch(holds): return ready(ok(WatchRef(watch)))
            if e2.choose(2, 'wait_for_cancel') == 0: return ready(err(CANCELED))
            return pending()
        return EnvFuture('wait_for', respond)
    ex.model_path('zksync_concurrency::sync::wait_for', wait_for)
    ex.model(r'<(tokio|zksync_concurrency)::sync::watch::Ref<.*> as std::ops::Deref>::deref', lambda e, n, a: Ref(deref_all(a[0]).watch.cell))
    ex.model(r'(tokio|zksync_concurrency)::sync::watch::Receiver::<.*>::(borrow|borrow_and_update)', lambda e, n, a: WatchRef(deref_all(a[0]).watch))
    ex.model(r'(tokio|zksync_concurrency)::sync::watch::Sender::<.*>::(borrow)', lambda e, n, a: WatchRef(M.deref_all(a[0]) if isinstance(M.deref_all(a[0]), M.WatchV) else M.deref_all(a[0])))
    ex.model(r'(tokio|zksync_concurrency)::sync::watch::Sender::<.*>::subscribe', lambda e, n, a: WatchReceiver(M.deref_all(a[0])))


def run_async(ex, key, args):
    """call an async fn (by body key of the fn item) and poll the returned coroutine once; returns the output or 'pending'"""
    install_futures(ex)
    co = ex.call_key(key, args)
    r = poll_value(ex, Ref(Cell(co)))
    if r.variant == 1: return 'pending'
    return r.fields[0]
