"""C05 — view changes are justified, monotone and follow the specification (engine M, one-step obligations).

Same exploration as C03 (props/replica.py, props/replica_checks.py). Obligations decided on every handler path:
 - the high commit / timeout certificates held never decrease in view, are never dropped, and a certificate is
   adopted only if it passed verification (acceptance condition true on the path);
 - the replica's view changes only when it holds a certificate for the preceding view;
 - every emitted new-view carries the highest certificate held (commit certificate on ties) — self-justifying;
 - the (view, phase) pair never decreases (shared with C03);
 - conformance of the accept/reject class of each handler to the reference transcription of
   spec/informal-spec/replica.rs (props/replica_spec.py), with the implementation's documented refinements.
"""
from mirsym import models as M, env
from props import replica_checks as RC
import framework as F

PROP = 'C05'


def run(rep, db, tier, seed):
    rep.engines.append('mirsym (MIR symbolic execution of the handler coroutines + z3)')
    rep.trusted += M.TRUSTED + env.TRUSTED + ['certificate verification summarised by its contract (decided in C04)', 'EngineManager futures answered by contract; signing ideal; clock opaque']
    rep.assumptions += ['induction over steps is a paper argument', 'reachable-state invariant assumed for the pre-state (see C03)']
    rep.bounds = dict(steps=1, committee='N = 2 (quick), 2..3 (thorough), symbolic weights', caches='<= 1 entry')
    RC.run_all(rep, db, tier, ('C05',))
    # two-step sequences: the pre-state of the step under test is produced by the real code (restart + one accepted step), so state
    # that one handler leaves behind for another, and fields this harness does not know, are covered (props/replica_seq.py)
    try:
        from props import replica_seq
        replica_seq.run(rep, db, tier, ('C05', 'C03', 'C02'))
        rep.bounds['sequences'] = 'restart -> accepted step A -> step B, second input well signed by a validator; quick: 4 (A, B) pairs from a start state in phase Prepare holding a commit certificate; thorough: 14 pairs, phase Prepare / Timeout, with / without a high vote'
    except Exception as u:
        rep.add(F.Obligation('two-step handler sequences', 'inconclusive', f'{type(u).__name__}: {u}'[:600]))
    rep.extra['explanation'] = 'one-step certificate-monotonicity, justification and self-justification obligations on the real handler MIR'
