"""debug pretty-printer for mirdump bodies: python3 -m mirsym.pp <name regex> [prefix]"""
import sys, json
from .db import DB


def pl(p):
    s = f'_{p["local"]}'
    for e in p['projection']:
        if e == 'Deref': s = f'(*{s})'
        elif 'Field' in e: s += f'.{e["Field"][0]}'
        elif 'Downcast' in e: s += f' as v{e["Downcast"]}'
        elif 'Index' in e: s += f'[_{e["Index"]}]'
        else: s += f'<{list(e.keys())[0]}>'
    return s


def op(db, crate, o, consts):
    if 'Copy' in o: return pl(o['Copy'])
    if 'Move' in o: return 'move ' + pl(o['Move'])
    c = o['Constant']['const_']
    t = db.ty(crate, c['ty'])
    info = t['info'] if t else {}
    d = consts.get(str(c.get('id')))
    if d is not None: return f'const {json.dumps(d)[:80]}'
    if info.get('k') == 'fndef':
        return 'fn ' + ((info.get('resolved') or {}).get('name') or info['name'])
    k = c['kind']
    if isinstance(k, dict) and 'Allocated' in k:
        by = k['Allocated']['bytes']
        return f'const {int.from_bytes(bytes(b or 0 for b in by[:16]), "little")}:{t["display"] if t else "?"}'
    return f'const {k if isinstance(k, str) else list(k.keys())[0]}:{t["display"] if t else "?"}'


def rv(db, crate, r, consts):
    k = list(r.keys())[0]; v = r[k]
    o = lambda x: op(db, crate, x, consts)
    if k == 'Use': return o(v[0] if isinstance(v, list) else v)
    if k == 'Ref': return '&' + pl(v[2])
    if k == 'AddressOf': return '&raw ' + pl(v[1])
    if k == 'CopyForDeref': return 'deref_copy ' + pl(v)
    if k in ('BinaryOp', 'CheckedBinaryOp'): return f'{k[:7]}.{v[0]}({o(v[1])}, {o(v[2])})'
    if k == 'UnaryOp': return f'{v[0]}({o(v[1])})'
    if k == 'Discriminant': return f'discr({pl(v)})'
    if k == 'Cast':
        t = db.ty(crate, v[2])
        return f'{o(v[1])} as {t["display"] if t else v[2]} ({v[0] if isinstance(v[0], str) else list(v[0].keys())[0]})'
    if k == 'Aggregate':
        kind = v[0]
        kn = kind if isinstance(kind, str) else list(kind.keys())[0]
        extra = ''
        if isinstance(kind, dict) and 'Adt' in kind:
            d = db.defn(crate, kind['Adt'][0]); extra = f' {d["name"] if d else "?"}#v{kind["Adt"][1]}'
        return f'{kn}{extra}({", ".join(o(x) for x in v[1])})'
    if k == 'Len': return f'len({pl(v)})'
    return f'{k}(..)'


def show(db, rec):
    crate = rec['crate']; body = rec['body']; consts = rec.get('consts') or {}
    print(f'fn {rec["name"]}  [{rec.get("rec")} {crate}] args={body["arg_count"]} span={rec.get("span")}')
    for i, l in enumerate(body['locals']):
        t = db.ty(crate, l['ty'])
        print(f'   let _{i}: {t["display"] if t else l["ty"]}')
    for bi, b in enumerate(body['blocks']):
        print(f' bb{bi}:')
        for st in b['statements']:
            k = st['kind']
            if isinstance(k, str) or 'StorageLive' in k or 'StorageDead' in k: continue
            if 'Assign' in k: print(f'    {pl(k["Assign"][0])} = {rv(db, crate, k["Assign"][1], consts)}')
            else: print(f'    {list(k.keys())[0]} {json.dumps(k)[:100]}')
        t = b['terminator']['kind']
        if isinstance(t, str): print(f'    {t}'); continue
        k = list(t.keys())[0]; v = t[k]
        if k == 'Goto': print(f'    goto bb{v["target"]}')
        elif k == 'SwitchInt': print(f'    switch {op(db, crate, v["discr"], consts)} {[(a, "bb%d" % b) for a, b in v["targets"]["branches"]]} else bb{v["targets"]["otherwise"]}')
        elif k == 'Call':
            print(f'    {pl(v["destination"])} = call {op(db, crate, v["func"], consts)}({", ".join(op(db, crate, a, consts) for a in v["args"])}) -> {"bb%d" % v["target"] if v["target"] is not None else "!"}')
        elif k == 'Assert': print(f'    assert({op(db, crate, v["cond"], consts)} == {v["expected"]}, {list(v["msg"].keys())[0] if isinstance(v["msg"], dict) else v["msg"]}) -> bb{v["target"]}')
        elif k == 'Drop': print(f'    drop({pl(v["place"])}) -> bb{v["target"]}   {(rec.get("drops") or {}).get(str(bi), {}).get("name", "")}')
        else: print(f'    {k} {json.dumps(v)[:120]}')


if __name__ == '__main__':
    db = DB(sys.argv[2] if len(sys.argv) > 2 else '/verif/target/mir/out')
    ks = db.find(sys.argv[1], kinds=('fn', 'inst', 'prom'))
    for k in ks[:int(sys.argv[3]) if len(sys.argv) > 3 else 3]:
        show(db, db.body(k))
