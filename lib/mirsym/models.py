"""Native models of std containers / combinators for mirsym (the trusted base; listed in every evidence file).

Dispatch is by method name + the python type of the receiver ("duck typing"): a std call whose receiver is a
native container value is answered here; anything else falls through to the real MIR body if mirdump has one.
"""
import re, itertools
import z3
from .core import (Num, Agg, Ref, Cell, Opaque, FnVal, Uninit, UNINIT, UNIT, Panic, Unmodelled, Infeasible, u64, num_cmp, num_arith,
                   num_checked, num_cast, b_not, b_and, b_or, to_z3_bool, is_sym, wrap_int, in_range, z3wrap)

TRUSTED = [
    'Vec/slice/array/VecDeque = python list of values (concrete length per path)',
    'BTreeMap/BTreeSet = association list kept sorted by key order; HashMap/HashSet = association list in insertion order (iteration order treated as unspecified where the harness says so)',
    'slice::Iter/vec::IntoIter/map iterators and the Iterator adaptors (map, filter, filter_map, enumerate, zip, rev, take, skip, chain, cloned/copied, flatten, flat_map) and consumers (next, fold, sum, count, all, any, find, position, max/min(_by_key), last, collect, for_each) = python generators calling the real closure MIR',
    'Option/Result/ControlFlow combinators executed natively when no MIR body is available',
    'integer helpers (checked_*, saturating_*, wrapping_*, overflowing_*, min, max, abs_diff, pow with concrete exponent) encoded exactly',
    'Clone = structural deep copy; PartialEq/Ord on container elements = structural (derived) comparison',
    'Arc/Rc/Box/Pin/ManuallyDrop/MaybeUninit are transparent',
]


class VecV:
    __slots__ = ('items', 'kind')

    def __init__(self, items, kind='vec'):
        self.items = list(items); self.kind = kind

    def __repr__(self):
        return f'{self.kind}{self.items!r}'


class MapV:
    """entries: list of (key, Cell(value)); ordered => kept sorted by key (BTreeMap)"""
    __slots__ = ('entries', 'ordered', 'kind')

    def __init__(self, entries=(), ordered=True, kind='map'):
        self.entries = [(k, c if isinstance(c, Cell) else Cell(c)) for k, c in entries]; self.ordered = ordered; self.kind = kind

    def __repr__(self):
        return f'{"BTree" if self.ordered else "Hash"}{self.kind}{{' + ', '.join(f'{k!r}: {c.v!r}' for k, c in self.entries) + '}'


class IterV:
    __slots__ = ('gen', 'peeked', 'back')

    def __init__(self, gen, back=None):
        self.gen = gen if hasattr(gen, '__next__') else iter(gen); self.peeked = []; self.back = back

    def __iter__(self):
        return self

    def __next__(self):
        if self.peeked:
            return self.peeked.pop(0)
        return next(self.gen)

    def __repr__(self):
        return 'Iter<..>'


class BitVecV:
    __slots__ = ('bits',)

    def __init__(self, bits):
        self.bits = list(bits)

    def __repr__(self):
        return f'BitVec{self.bits!r}'


class StrV:
    __slots__ = ('s',)

    def __init__(self, s):
        self.s = s

    def __repr__(self):
        return f'str{self.s!r}'


class BoxV:
    """heap indirection with identity (Arc/Rc): deref gives the shared inner cell"""
    __slots__ = ('cell',)

    def __init__(self, v):
        self.cell = v if isinstance(v, Cell) else Cell(v)

    def deref(self):
        return self.cell.v

    def deref_set(self, nv):
        self.cell.v = nv

    def deref_ref(self):
        return Ref(self.cell)

    def proj_field(self, a):
        # Box<T> is dereferenced in MIR through its internals ((box.0: Unique).0: NonNull).pointer: all of them denote the box
        return self

    def __repr__(self):
        return f'Arc({self.cell.v!r})'


def some(v): return Agg('adt', 'Option', 1, [v])
def none(): return Agg('adt', 'Option', 0, [])
def ok(v): return Agg('adt', 'Result', 0, [v])
def err(v): return Agg('adt', 'Result', 1, [v])
def ready(v): return Agg('adt', 'Poll', 0, [v])
def pending(): return Agg('adt', 'Poll', 1, [])
def tup(*vs): return Agg('tuple', 'tuple', 0, list(vs))
def cf_continue(v): return Agg('adt', 'ControlFlow', 0, [v])
def cf_break(v): return Agg('adt', 'ControlFlow', 1, [v])


def ordering(ex, lt, eq):
    """std::cmp::Ordering from (lt, eq) conditions; forks"""
    if ex.branch(lt): return Agg('adt', 'Ordering', 0, [])
    if ex.branch(eq): return Agg('adt', 'Ordering', 1, [])
    return Agg('adt', 'Ordering', 2, [])


def deref_all(v):
    while True:
        if isinstance(v, Ref): v = v.get()
        elif isinstance(v, BoxV): v = v.deref()
        else: return v


def copy_value(v):
    """by-value copy of a Copy-type value (aggregates are mutable python objects)"""
    if isinstance(v, Agg):
        if v.kind == 'coroutine': return v
        a = Agg(v.kind, v.ty, v.variant, [copy_value(f) for f in v.fields]); a.body_key = v.body_key
        return a
    if isinstance(v, VecV) and v.kind == 'array':
        return VecV([copy_value(x) for x in v.items], 'array')
    return v


def clone_value(ex, v):
    """structural deep copy (derived Clone)"""
    if isinstance(v, Agg):
        if v.kind == 'coroutine': raise Unmodelled('clone of coroutine')
        a = Agg(v.kind, v.ty, v.variant, [clone_value(ex, f) for f in v.fields]); a.body_key = v.body_key
        return a
    if isinstance(v, VecV): return VecV([clone_value(ex, x) for x in v.items], v.kind)
    if isinstance(v, MapV): return MapV([(clone_value(ex, k), Cell(clone_value(ex, c.v))) for k, c in v.entries], v.ordered, v.kind)
    if isinstance(v, BitVecV): return BitVecV(v.bits)
    if isinstance(v, IterV): raise Unmodelled('clone of iterator')
    if hasattr(v, 'py_clone'): return v.py_clone(ex)
    return v    # Num, bool, Opaque, Ref, FnVal, BoxV (shared), StrV


def values_equal(ex, x, y):
    """structural equality as a (possibly symbolic) boolean"""
    x = deref_all(x); y = deref_all(y)
    if isinstance(x, Num) and isinstance(y, Num): return num_cmp('Eq', x, y)
    if isinstance(x, (bool, z3.BoolRef)) and isinstance(y, (bool, z3.BoolRef)):
        if isinstance(x, bool) and isinstance(y, bool): return x == y
        return to_z3_bool(x) == to_z3_bool(y)
    if isinstance(x, Opaque) and isinstance(y, Opaque):
        if is_sym(x.tag) or is_sym(y.tag):
            if is_sym(x.tag) and is_sym(y.tag) and x.tag.sort() == y.tag.sort(): return True if x.tag.eq(y.tag) else x.tag == y.tag
            raise Unmodelled(f'equality of opaque values of different kinds {x} {y}')
        return x.tag == y.tag
    if isinstance(x, Agg) and isinstance(y, Agg):
        if x.variant != y.variant or len(x.fields) != len(y.fields): return False
        return b_and(*[values_equal(ex, p, q) for p, q in zip(x.fields, y.fields)])
    if isinstance(x, VecV) and isinstance(y, VecV):
        if len(x.items) != len(y.items): return False
        return b_and(*[values_equal(ex, p, q) for p, q in zip(x.items, y.items)])
    if isinstance(x, BitVecV) and isinstance(y, BitVecV):
        if len(x.bits) != len(y.bits): return False
        return b_and(*[values_equal(ex, p, q) for p, q in zip(x.bits, y.bits)])
    if isinstance(x, MapV) and isinstance(y, MapV):
        if len(x.entries) != len(y.entries): return False
        if not x.ordered: raise Unmodelled('equality of hash maps')
        return b_and(*[b_and(values_equal(ex, k1, k2), values_equal(ex, c1.v, c2.v)) for (k1, c1), (k2, c2) in zip(x.entries, y.entries)])
    if isinstance(x, StrV) and isinstance(y, StrV): return x.s == y.s
    if isinstance(x, Uninit) or isinstance(y, Uninit): raise Unmodelled('equality on uninitialised value')
    if hasattr(x, 'py_eq'): return x.py_eq(ex, y)
    raise Unmodelled(f'equality of {type(x).__name__} and {type(y).__name__}')


def values_lt_eq(ex, x, y):
    """(lt, eq) of derived lexicographic ordering"""
    x = deref_all(x); y = deref_all(y)
    if isinstance(x, Num) and isinstance(y, Num): return num_cmp('Lt', x, y), num_cmp('Eq', x, y)
    if isinstance(x, bool) and isinstance(y, bool): return (not x) and y, x == y
    if isinstance(x, (bool, z3.BoolRef)) and isinstance(y, (bool, z3.BoolRef)):
        zx, zy = to_z3_bool(x), to_z3_bool(y)
        return z3.And(z3.Not(zx), zy), zx == zy
    if isinstance(x, Opaque) and isinstance(y, Opaque):
        if is_sym(x.tag) and is_sym(y.tag): return x.tag < y.tag, x.tag == y.tag
        if not is_sym(x.tag) and not is_sym(y.tag):
            return x.tag < y.tag, x.tag == y.tag
        raise Unmodelled('ordering of mixed opaque values')
    if isinstance(x, Agg) and isinstance(y, Agg):
        if x.variant != y.variant: return x.variant < y.variant, False
        return seq_lt_eq(ex, x.fields, y.fields)
    if isinstance(x, VecV) and isinstance(y, VecV):
        return seq_lt_eq(ex, x.items, y.items)
    if isinstance(x, BitVecV) and isinstance(y, BitVecV):
        return seq_lt_eq(ex, x.bits, y.bits)
    if hasattr(x, 'py_lt_eq'): return x.py_lt_eq(ex, y)
    raise Unmodelled(f'ordering of {type(x).__name__} and {type(y).__name__}')


def seq_lt_eq(ex, xs, ys):
    lt = False; eq = True
    for p, q in zip(xs, ys):
        l, e = values_lt_eq(ex, p, q)
        lt = b_or(lt, b_and(eq, l)); eq = b_and(eq, e)
    if len(xs) < len(ys): lt = b_or(lt, eq); eq = False
    elif len(xs) > len(ys): eq = False
    return lt, eq


# ------------------------------------------------------------------------------------------- name parsing
_name_cache = {}


def strip_generics(s):
    """remove trailing ::<...> groups"""
    while s.endswith('>') and not s.startswith('<') or (s.endswith('>') and s.startswith('<') and _matching_open(s) != 0):
        i = _matching_open(s)
        if i is None or i < 2 or s[i - 2:i] != '::': break
        s = s[:i - 2]
    return s


_sag_cache = {}


def strip_all_generics(s):
    """remove every `::<...>` group (turbofish generic arguments) anywhere in a path"""
    r = _sag_cache.get(s)
    if r is not None: return r
    out = []; i = 0; n = len(s)
    while i < n:
        if s.startswith('::<', i):
            depth = 0; j = i + 2
            while j < n:
                c = s[j]
                if c == '<': depth += 1
                elif c == '>' and s[j - 1] != '-':
                    depth -= 1
                    if depth == 0: break
                j += 1
            i = j + 1
            continue
        out.append(s[i]); i += 1
    r = ''.join(out)
    _sag_cache[s] = r
    return r


def _matching_open(s):
    depth = 0
    for i in range(len(s) - 1, -1, -1):
        c = s[i]
        if c == '>' and (i == 0 or s[i - 1] != '-'): depth += 1
        elif c == '<':
            depth -= 1
            if depth == 0: return i
    return None


def parse_name(name):
    """-> (self_part, trait_part, method) ; self_part/trait_part are raw strings (may be '')"""
    r = _name_cache.get(name)
    if r: return r
    s = strip_generics(name)
    selfp = trait = ''
    if s.startswith('<'):
        depth = 0; end = None
        for i, c in enumerate(s):
            if c == '<': depth += 1
            elif c == '>' and s[i - 1] != '-':
                depth -= 1
                if depth == 0: end = i; break
        inner = s[1:end]; rest = s[end + 1:]
        # split "T as Trait" at top-level " as "
        depth = 0; pos = None; i = 0
        while i < len(inner):
            c = inner[i]
            if c in '<([': depth += 1
            elif c in '>)]' and inner[i - 1] != '-': depth -= 1
            elif depth == 0 and inner.startswith(' as ', i): pos = i; break
            i += 1
        if pos is not None: selfp, trait = inner[:pos], inner[pos + 4:]
        else: selfp = inner
        method = rest.split('::')[-1] if rest else ''
    else:
        parts = s.rsplit('::', 1)
        if len(parts) == 2: selfp, method = parts
        else: selfp, method = '', s
    r = (selfp, trait, method)
    _name_cache[name] = r
    return r


# ------------------------------------------------------------------------------------------- helpers
def panic(msg):
    raise Panic(msg)


def as_iter(ex, v, by_ref=None):
    """turn a value into an IterV (IntoIterator semantics)"""
    if isinstance(v, IterV): return v
    if isinstance(v, Ref):
        tgt = v.get()
        if isinstance(tgt, IterV): return tgt          # &mut iterator
        if isinstance(tgt, BoxV): return as_iter(ex, Ref(tgt.cell))
        if isinstance(tgt, VecV):
            return IterV((Ref(v.cell, v.path + (('index', i),)) for i in range(len(tgt.items))),
                         back=lambda: [Ref(v.cell, v.path + (('index', i),)) for i in range(len(tgt.items))])
        if isinstance(tgt, MapV):
            return map_iter(ex, tgt, 'ref')
        if isinstance(tgt, Agg) and tgt.name == 'Option':
            return IterV(iter([Ref(v.cell, v.path + (('field', 0),))] if tgt.variant == 1 else []))
        if isinstance(tgt, Ref): return as_iter(ex, tgt)
        raise Unmodelled(f'iteration over &{type(tgt).__name__}')
    if isinstance(v, VecV):
        items = list(v.items)
        return IterV(iter(items), back=lambda: items)
    if isinstance(v, MapV): return map_iter(ex, v, 'owned')
    if isinstance(v, Agg) and v.name == 'Option':
        return IterV(iter([v.fields[0]] if v.variant == 1 else []))
    if isinstance(v, Agg) and v.name in ('Range', 'core::ops::Range', 'std::ops::Range') or (isinstance(v, Agg) and isinstance(v.ty, dict) and v.ty['info'].get('name', '').endswith('ops::Range')):
        return range_iter(ex, v.fields[0], v.fields[1])
    raise Unmodelled(f'iteration over {type(v).__name__} {v!r}'[:200])


def range_iter(ex, lo, hi):
    def g():
        cur = lo
        while True:
            if not ex.branch(num_cmp('Lt', cur, hi)): return
            yield cur
            cur = num_arith('Add', cur, Num(1, cur.bits, cur.signed))
    return IterV(g())


def map_order(ex, m):
    """iteration order of a map: sorted for BTreeMap; for hash maps every permutation up to size 3 is explored"""
    ents = list(m.entries)
    if m.ordered or len(ents) <= 1: return ents
    if len(ents) > 3 and not getattr(ex, 'hash_order_insertion', False):
        raise Unmodelled('hash map iteration over more than 3 entries')
    if getattr(ex, 'hash_order_insertion', False): return ents
    perms = list(itertools.permutations(ents))
    return list(perms[ex.choose(len(perms), 'hash_order')])


def map_iter(ex, m, mode, what='both'):
    def g():
        for k, c in map_order(ex, m):
            if what == 'keys': yield (Ref(Cell(k)) if mode == 'ref' else k)
            elif what == 'values': yield (Ref(c) if mode in ('ref', 'mut') else c.v)
            else: yield tup(Ref(Cell(k)), Ref(c)) if mode in ('ref', 'mut') else tup(k, c.v)
    return IterV(g())


def map_find(ex, m, key):
    """index of the entry with an equal key, forking on symbolic equality; None if absent"""
    for i, (k, c) in enumerate(m.entries):
        if ex.branch(values_equal(ex, k, key)): return i
    return None


def map_insert(ex, m, key, val):
    i = map_find(ex, m, key)
    if i is not None:
        old = m.entries[i][1].v; m.entries[i][1].v = val
        return some(old)
    if m.ordered:
        pos = len(m.entries)
        for j, (k, c) in enumerate(m.entries):
            lt, _ = values_lt_eq(ex, key, k)
            if ex.branch(lt): pos = j; break
        m.entries.insert(pos, (key, Cell(val)))
    else:
        m.entries.append((key, Cell(val)))
    return none()


def unit_or(v):
    return v


# ------------------------------------------------------------------------------------------- method tables
def recv(a):
    return deref_all(a[0]) if a else None


def M_len(ex, n, a):
    v = recv(a)
    if isinstance(v, VecV): return u64(len(v.items))
    if isinstance(v, MapV): return u64(len(v.entries))
    if isinstance(v, BitVecV): return u64(len(v.bits))
    if isinstance(v, StrV): return u64(len(v.s.encode()))
    return NotImplemented


def M_is_empty(ex, n, a):
    v = recv(a)
    if isinstance(v, VecV): return len(v.items) == 0
    if isinstance(v, MapV): return len(v.entries) == 0
    if isinstance(v, BitVecV): return len(v.bits) == 0
    if isinstance(v, StrV): return len(v.s) == 0
    return NotImplemented


def vec_ref(a0):
    """Ref to the container behind a receiver (&Vec, &&Vec, &Arc<Vec>...)"""
    r = a0
    while True:
        t = r.get()
        if isinstance(t, Ref): r = t
        elif isinstance(t, BoxV): r = Ref(t.cell)
        else: return r


def M_index(ex, n, a):
    v = recv(a)
    if isinstance(v, VecV) and isinstance(a[1], Num):
        r = vec_ref(a[0]); idx = a[1]
        if not ex.branch(num_cmp('Lt', idx, u64(len(v.items)))): raise Panic('index out of bounds')
        k = ex.concretize_index(idx, len(v.items))
        return Ref(r.cell, r.path + (('index', k),))
    if isinstance(v, BitVecV):
        idx = a[1]
        if not ex.branch(num_cmp('Lt', idx, u64(len(v.bits)))): raise Panic('index out of bounds')
        k = ex.concretize_index(idx, len(v.bits))
        return Ref(Cell(v.bits[k]))
    if isinstance(v, MapV):
        i = map_find(ex, v, a[1])
        if i is None: raise Panic('key not found in map index')
        return Ref(v.entries[i][1])
    if isinstance(v, VecV) and isinstance(a[1], Agg):
        return Ref(Cell(slice_range(ex, v, a[1])))
    return NotImplemented


def slice_range(ex, v, rng):
    nm = rng.name or ''
    items = v.items
    def conc(x):
        if not x.concrete: raise Unmodelled('symbolic slice range')
        return x.e
    if nm.endswith('RangeFull'): return VecV(items, 'slice')
    if nm.endswith('RangeFrom'):
        lo = conc(rng.fields[0])
        if lo > len(items): raise Panic('slice start index out of range')
        return VecV(items[lo:], 'slice')
    if nm.endswith('RangeTo'):
        hi = conc(rng.fields[0])
        if hi > len(items): raise Panic('slice end index out of range')
        return VecV(items[:hi], 'slice')
    if nm.endswith('Range'):
        lo, hi = conc(rng.fields[0]), conc(rng.fields[1])
        if lo > hi: raise Panic('slice index starts after end')
        if hi > len(items): raise Panic('slice end index out of range')
        return VecV(items[lo:hi], 'slice')
    raise Unmodelled(f'slice by {nm}')


def M_get(ex, n, a):
    v = recv(a)
    if isinstance(v, VecV) and isinstance(a[1], Num):
        r = vec_ref(a[0]); idx = a[1]
        if not ex.branch(num_cmp('Lt', idx, u64(len(v.items)))): return none()
        k = ex.concretize_index(idx, len(v.items))
        return some(Ref(r.cell, r.path + (('index', k),)))
    if isinstance(v, MapV):
        i = map_find(ex, v, a[1])
        return none() if i is None else some(Ref(v.entries[i][1]))
    if isinstance(v, BitVecV):
        idx = a[1]
        if not ex.branch(num_cmp('Lt', idx, u64(len(v.bits)))): return none()
        return some(v.bits[ex.concretize_index(idx, len(v.bits))])
    return NotImplemented


def M_get_mut(ex, n, a):
    return M_get(ex, n, a)


def M_contains_key(ex, n, a):
    v = recv(a)
    if isinstance(v, MapV): return map_find(ex, v, a[1]) is not None
    return NotImplemented


def M_contains(ex, n, a):
    v = recv(a)
    if isinstance(v, MapV): return map_find(ex, v, a[1]) is not None
    if isinstance(v, VecV):
        return b_or(*[values_equal(ex, x, a[1]) for x in v.items])
    return NotImplemented


def M_insert(ex, n, a):
    v = recv(a)
    if isinstance(v, MapV):
        if v.kind == 'set':
            r = map_insert(ex, v, a[1], UNIT)
            return r.variant == 0
        return map_insert(ex, v, a[1], a[2])
    if isinstance(v, VecV) and len(a) == 3:
        if not a[1].concrete: raise Unmodelled('Vec::insert at symbolic index')
        v.items.insert(a[1].e, a[2]); return UNIT
    return NotImplemented


def M_remove(ex, n, a):
    v = recv(a)
    if isinstance(v, MapV):
        i = map_find(ex, v, a[1])
        if i is None: return none() if v.kind != 'set' else False
        k, c = v.entries.pop(i)
        return some(c.v) if v.kind != 'set' else True
    if isinstance(v, VecV):
        idx = a[1]
        if not ex.branch(num_cmp('Lt', idx, u64(len(v.items)))):
            if 'VecDeque' in n: return none()
            raise Panic('removal index out of bounds')
        k = ex.concretize_index(idx, len(v.items))
        x = v.items.pop(k)
        return some(x) if 'VecDeque' in n else x
    return NotImplemented


def M_remove_entry(ex, n, a):
    v = recv(a)
    if isinstance(v, MapV) and v.kind != 'set':
        i = map_find(ex, v, a[1])
        if i is None: return none()
        k, c = v.entries.pop(i)
        return some(Agg('tuple', None, 0, [k, c.v]))
    return NotImplemented


def M_push(ex, n, a):
    v = recv(a)
    if isinstance(v, VecV): v.items.append(a[1]); return UNIT
    if isinstance(v, BitVecV): v.bits.append(a[1]); return UNIT
    return NotImplemented


def M_push_front(ex, n, a):
    v = recv(a)
    if isinstance(v, VecV): v.items.insert(0, a[1]); return UNIT
    return NotImplemented


def M_pop(ex, n, a):
    v = recv(a)
    if isinstance(v, VecV): return some(v.items.pop()) if v.items else none()
    return NotImplemented


def M_pop_front(ex, n, a):
    v = recv(a)
    if isinstance(v, VecV): return some(v.items.pop(0)) if v.items else none()
    return NotImplemented


def M_front(ex, n, a):
    v = recv(a)
    if isinstance(v, VecV):
        r = vec_ref(a[0])
        return some(Ref(r.cell, r.path + (('index', 0),))) if v.items else none()
    return NotImplemented


def M_back(ex, n, a):
    v = recv(a)
    if isinstance(v, VecV):
        r = vec_ref(a[0])
        return some(Ref(r.cell, r.path + (('index', len(v.items) - 1),))) if v.items else none()
    if isinstance(v, MapV) and 'last' in n:
        return none() if not v.entries else some(tup(Ref(Cell(v.entries[-1][0])), Ref(v.entries[-1][1])))
    return NotImplemented


def M_first_key_value(ex, n, a):
    v = recv(a)
    if isinstance(v, MapV) and v.ordered:
        return none() if not v.entries else some(tup(Ref(Cell(v.entries[0][0])), Ref(v.entries[0][1])))
    return NotImplemented


def M_last_key_value(ex, n, a):
    v = recv(a)
    if isinstance(v, MapV) and v.ordered:
        return none() if not v.entries else some(tup(Ref(Cell(v.entries[-1][0])), Ref(v.entries[-1][1])))
    return NotImplemented


def M_pop_first(ex, n, a):
    v = recv(a)
    if isinstance(v, MapV) and v.ordered:
        if not v.entries: return none()
        k, c = v.entries.pop(0)
        return some(tup(k, c.v)) if v.kind != 'set' else some(k)
    return NotImplemented


def M_pop_last(ex, n, a):
    v = recv(a)
    if isinstance(v, MapV) and v.ordered:
        if not v.entries: return none()
        k, c = v.entries.pop()
        return some(tup(k, c.v)) if v.kind != 'set' else some(k)
    return NotImplemented


def M_first_entry(ex, n, a):
    v = recv(a)
    if isinstance(v, MapV) and v.ordered and v.kind != 'set':
        if not v.entries: return none()
        return some(EntryV(v, v.entries[0][0], 0, True))
    return NotImplemented


def M_last_entry(ex, n, a):
    v = recv(a)
    if isinstance(v, MapV) and v.ordered and v.kind != 'set':
        if not v.entries: return none()
        return some(EntryV(v, v.entries[-1][0], len(v.entries) - 1, True))
    return NotImplemented


def M_clear(ex, n, a):
    v = recv(a)
    if isinstance(v, VecV): v.items.clear(); return UNIT
    if isinstance(v, MapV): v.entries.clear(); return UNIT
    return NotImplemented


def M_truncate(ex, n, a):
    v = recv(a)
    if isinstance(v, VecV):
        if not a[1].concrete: raise Unmodelled('truncate to symbolic length')
        del v.items[a[1].e:]; return UNIT
    return NotImplemented


def M_retain(ex, n, a):
    v = recv(a)
    if isinstance(v, VecV):
        r = vec_ref(a[0]); keep = []
        for i, x in enumerate(list(v.items)):
            if ex.branch(ex.call_closure(a[1], [Ref(Cell(x))])): keep.append(x)
        v.items[:] = keep; return UNIT
    if isinstance(v, MapV):
        keep = []
        for k, c in list(v.entries):
            args = [Ref(Cell(k))] if v.kind == 'set' else [Ref(Cell(k)), Ref(c)]
            if ex.branch(ex.call_closure(a[1], args)): keep.append((k, c))
        v.entries[:] = keep; return UNIT
    return NotImplemented


def M_split_off(ex, n, a):
    v = recv(a)
    if isinstance(v, MapV) and v.ordered:
        keep = []; off = []
        for k, c in v.entries:
            lt, _ = values_lt_eq(ex, k, a[1])
            (keep if ex.branch(lt) else off).append((k, c))
        v.entries[:] = keep
        return MapV(off, True, v.kind)
    if isinstance(v, VecV):
        if not a[1].concrete: raise Unmodelled('split_off at symbolic index')
        tail = v.items[a[1].e:]; del v.items[a[1].e:]
        return VecV(tail, v.kind)
    return NotImplemented


def M_append(ex, n, a):
    v = recv(a); o = deref_all(a[1])
    if isinstance(v, VecV) and isinstance(o, VecV):
        v.items.extend(o.items); o.items.clear(); return UNIT
    if isinstance(v, MapV) and isinstance(o, MapV):
        for k, c in list(o.entries): map_insert(ex, v, k, c.v)
        o.entries.clear(); return UNIT
    return NotImplemented


def M_iter(ex, n, a):
    v = recv(a)
    if isinstance(v, (VecV, MapV)): return as_iter(ex, vec_ref(a[0]) if isinstance(a[0], Ref) else a[0])
    if isinstance(v, BitVecV): return IterV(iter(list(v.bits)))
    if isinstance(v, Agg) and v.name == 'Option': return as_iter(ex, a[0])
    return NotImplemented


def M_keys(ex, n, a):
    v = recv(a)
    if isinstance(v, MapV): return map_iter(ex, v, 'ref', 'keys')
    return NotImplemented


def M_values(ex, n, a):
    v = recv(a)
    if isinstance(v, MapV): return map_iter(ex, v, 'ref', 'values')
    return NotImplemented


def M_into_values(ex, n, a):
    v = recv(a)
    if isinstance(v, MapV): return map_iter(ex, v, 'owned', 'values')
    return NotImplemented


def M_into_keys(ex, n, a):
    v = recv(a)
    if isinstance(v, MapV): return map_iter(ex, v, 'owned', 'keys')
    return NotImplemented


def M_into_iter(ex, n, a):
    try:
        return as_iter(ex, a[0])
    except Unmodelled:
        return NotImplemented


def M_entry(ex, n, a):
    v = recv(a)
    if isinstance(v, MapV):
        i = map_find(ex, v, a[1])
        # variant order of the Entry enum: std btree_map::Entry is (Vacant, Occupied); std hash_map / im::hashmap / im::ordmap are (Occupied, Vacant)
        btree = bool(re.search(r'std::collections::(btree_map::|BTreeMap)', n))
        return EntryV(v, a[1], i, btree)
    return NotImplemented


class EntryV:
    """map Entry (also usable as the enum: `match map.entry(k) { Occupied(e) => .., Vacant(e) => .. }`)"""
    __slots__ = ('m', 'key', 'idx', 'btree')

    def __init__(self, m, key, idx, btree=False):
        self.m = m; self.key = key; self.idx = idx; self.btree = btree

    def occupied(self): return self.idx is not None

    def discriminant(self):
        occ_index = 1 if self.btree else 0
        return occ_index if self.occupied() else 1 - occ_index

    def proj_downcast(self, a):
        if a != self.discriminant(): raise Unmodelled(f'downcast {a} of a map entry that is {"occupied" if self.occupied() else "vacant"}')
        return self

    def proj_field(self, a):
        return self            # OccupiedEntry / VacantEntry: the same handle

    def py_clone(self, ex): return self


def _entry(a):
    v = a[0] if a else None
    while isinstance(v, Ref): v = v.get()
    return v if isinstance(v, EntryV) else None


def M_entry_get(ex, n, a):
    e = _entry(a)
    if e is None or not re.search(r'OccupiedEntry', n): return NotImplemented
    i = map_find(ex, e.m, e.key)
    return Ref(e.m.entries[i][1])


def M_entry_insert(ex, n, a):
    e = _entry(a)
    if e is None or not re.search(r'(Occupied|Vacant)Entry', n): return NotImplemented
    i = map_find(ex, e.m, e.key)
    if 'OccupiedEntry' in n:
        old = e.m.entries[i][1].v
        e.m.entries[i][1].v = a[1]
        return old
    map_insert(ex, e.m, e.key, a[1])
    return Ref(e.m.entries[map_find(ex, e.m, e.key)][1])


def M_entry_remove(ex, n, a):
    e = _entry(a)
    if e is None or 'OccupiedEntry' not in n: return NotImplemented
    i = map_find(ex, e.m, e.key)
    k, c = e.m.entries.pop(i)
    return c.v if n.endswith('::remove') else Agg('tuple', None, 0, [k, c.v])


def M_entry_key(ex, n, a):
    e = _entry(a)
    if e is None or not re.search(r'(Occupied|Vacant)Entry', n): return NotImplemented
    return Ref(Cell(e.key))


def M_or_default(ex, n, a):
    e = a[0]
    if isinstance(e, EntryV):
        if e.idx is not None: return Ref(e.m.entries[e.idx][1])
        dv = default_for(n)
        if dv is None: raise Unmodelled(f'default value for {n}')
        map_insert(ex, e.m, e.key, dv)
        return Ref(e.m.entries[map_find(ex, e.m, e.key)][1])
    return NotImplemented


def default_for(n):
    """Default::default() of the value type named last in the generic arguments of an Entry method"""
    m = re.search(r', ([^,<>]+|[^,]+<.*>)>::or_default$', n)
    t = m.group(1).strip() if m else ''
    mt = re.fullmatch(r'(u|i)(8|16|32|64|128|size)', t)
    if mt: return Num(0, 64 if mt.group(2) == 'size' else int(mt.group(2)), mt.group(1) == 'i')
    if t == 'bool': return False
    if t.startswith('std::vec::Vec<'): return VecV([])
    if t.startswith('std::option::Option<'): return none()
    if re.match(r'std::collections::(BTreeMap|BTreeSet)<', t): return MapV([], True, 'set' if 'Set' in t else 'map')
    if re.match(r'std::collections::(HashMap|HashSet)<', t): return MapV([], False, 'set' if 'Set' in t else 'map')
    return None


def M_or_insert(ex, n, a):
    e = a[0]
    if isinstance(e, EntryV):
        if e.idx is not None: return Ref(e.m.entries[e.idx][1])
        map_insert(ex, e.m, e.key, a[1])
        return Ref(e.m.entries[map_find(ex, e.m, e.key)][1])
    return NotImplemented


def M_or_insert_with(ex, n, a):
    e = a[0]
    if isinstance(e, EntryV):
        if e.idx is not None: return Ref(e.m.entries[e.idx][1])
        map_insert(ex, e.m, e.key, ex.call_closure(a[1], []))
        return Ref(e.m.entries[map_find(ex, e.m, e.key)][1])
    return NotImplemented


# ---- iterator methods (receiver: IterV, possibly behind &mut)
def _std_iter(v, depth=0):
    """IterV view of a REAL std iterator struct built by executed core MIR (`Option::into_iter()` -> option::IntoIter { inner: Item { opt } },
    `a.chain(b)` -> Chain { a: Option<A>, b: Option<B> }); None if `v` is not one of them"""
    while isinstance(v, Ref): v = v.get()
    if isinstance(v, IterV): return v
    if not isinstance(v, Agg) or depth > 4 or not isinstance(v.name, str): return None
    nm = v.name
    if nm.endswith('option::IntoIter') or nm.endswith('option::Item') or nm.endswith('option::Iter'):
        inner = v.fields[0] if v.fields else None
        while isinstance(inner, Ref): inner = inner.get()
        if isinstance(inner, Agg) and isinstance(inner.name, str) and inner.name.endswith('Option'):
            return IterV(iter([inner.fields[0]] if inner.variant == 1 else []))
        return _std_iter(inner, depth + 1)
    if nm.endswith('::Chain') and 'iter' in nm:
        parts = []
        for f in v.fields[:2]:
            while isinstance(f, Ref): f = f.get()
            if isinstance(f, Agg) and isinstance(f.name, str) and f.name.endswith('Option'):
                if f.variant == 0: continue
                sub = _std_iter(f.fields[0], depth + 1)
            else:
                sub = _std_iter(f, depth + 1)
            if sub is None: return None
            parts.append(sub)
        return IterV(itertools.chain(*parts))
    return None


def it(a0):
    v = a0
    while isinstance(v, Ref): v = v.get()
    return v if isinstance(v, IterV) else None


def itc(a0):
    """receiver of a CONSUMING iterator method (taken by value): also accepts real std iterator structs (never used for `next`,
    which would not advance the real struct)"""
    r = it(a0)
    return r if r is not None else _std_iter(a0)


def M_next(ex, n, a):
    i = it(a[0])
    if i is None: return NotImplemented
    try: return some(next(i))
    except StopIteration: return none()


def M_next_back(ex, n, a):
    i = it(a[0])
    if i is None or i.back is None: return NotImplemented
    raise Unmodelled('next_back')


def I_enumerate(ex, n, a):
    i = it(a[0])
    if i is None: return NotImplemented
    return IterV((tup(u64(k), x) for k, x in enumerate(i)))


def I_map(ex, n, a):
    i = it(a[0])
    if i is None: return NotImplemented
    f = a[1]
    return IterV((ex.call_closure(f, [x]) for x in i))


def I_filter(ex, n, a):
    i = it(a[0])
    if i is None: return NotImplemented
    f = a[1]
    def g():
        for x in i:
            if ex.branch(ex.call_closure(f, [Ref(Cell(x))])): yield x
    return IterV(g())


def I_filter_map(ex, n, a):
    i = it(a[0])
    if i is None: return NotImplemented
    f = a[1]
    def g():
        for x in i:
            r = ex.call_closure(f, [x])
            if r.variant == 1: yield r.fields[0]
    return IterV(g())


def I_flat_map(ex, n, a):
    i = it(a[0])
    if i is None: return NotImplemented
    f = a[1]
    def g():
        for x in i:
            for y in as_iter(ex, ex.call_closure(f, [x])): yield y
    return IterV(g())


def I_flatten(ex, n, a):
    i = it(a[0])
    if i is None: return NotImplemented
    def g():
        for x in i:
            for y in as_iter(ex, x): yield y
    return IterV(g())


def I_zip(ex, n, a):
    i = it(a[0])
    if i is None: return NotImplemented
    j = as_iter(ex, a[1])
    return IterV((tup(x, y) for x, y in zip(i, j)))


def I_chain(ex, n, a):
    i = it(a[0])
    if i is None: return NotImplemented
    j = as_iter(ex, a[1])
    return IterV(itertools.chain(i, j))


def I_rev(ex, n, a):
    i = it(a[0])
    if i is None: return NotImplemented
    return IterV(iter(list(i)[::-1]))


def I_take(ex, n, a):
    i = it(a[0])
    if i is None: return NotImplemented
    if not a[1].concrete: raise Unmodelled('take(symbolic)')
    return IterV(itertools.islice(i, a[1].e))


def I_skip(ex, n, a):
    i = it(a[0])
    if i is None: return NotImplemented
    if not a[1].concrete: raise Unmodelled('skip(symbolic)')
    return IterV(itertools.islice(i, a[1].e, None))


def I_cloned(ex, n, a):
    i = it(a[0])
    if i is None: return NotImplemented
    return IterV((clone_value(ex, deref_once(x)) for x in i))


def deref_once(x):
    return x.get() if isinstance(x, Ref) else x


def I_peekable(ex, n, a):
    i = it(a[0])
    return i if i is not None else NotImplemented


def I_by_ref(ex, n, a):
    i = it(a[0])
    return a[0] if i is not None else NotImplemented


def I_fold(ex, n, a):
    i = itc(a[0])
    if i is None: return NotImplemented
    acc = a[1]
    for x in i: acc = ex.call_closure(a[2], [acc, x])
    return acc


def I_for_each(ex, n, a):
    i = itc(a[0])
    if i is None: return NotImplemented
    for x in i: ex.call_closure(a[1], [x])
    return UNIT


def I_count(ex, n, a):
    i = itc(a[0])
    if i is None: return NotImplemented
    return u64(sum(1 for _ in i))


def I_sum(ex, n, a):
    i = itc(a[0])
    if i is None: return NotImplemented
    acc = None
    for x in i:
        x = deref_once(x)
        if acc is None: acc = x; continue
        r, ovf = num_checked('Add', acc, x)
        if not ex.branch(b_not(ovf)): raise Panic('attempt to add with overflow')
        acc = r
    if acc is None:
        m = re.search(r'sum::<(\w+)>', n)
        t = m.group(1) if m else 'u64'
        bits = {'usize': 64, 'isize': 64}.get(t, int(t[1:]) if t[1:].isdigit() else 64)
        return Num(0, bits, t.startswith('i'))
    return acc


def I_all(ex, n, a):
    i = it(a[0])
    if i is None: return NotImplemented
    for x in i:
        if not ex.branch(ex.call_closure(a[1], [x])): return False
    return True


def I_any(ex, n, a):
    i = it(a[0])
    if i is None: return NotImplemented
    for x in i:
        if ex.branch(ex.call_closure(a[1], [x])): return True
    return False


def I_find(ex, n, a):
    i = it(a[0])
    if i is None: return NotImplemented
    for x in i:
        if ex.branch(ex.call_closure(a[1], [Ref(Cell(x))])): return some(x)
    return none()


def I_find_map(ex, n, a):
    i = it(a[0])
    if i is None: return NotImplemented
    for x in i:
        r = ex.call_closure(a[1], [x])
        if r.variant == 1: return r
    return none()


def I_position(ex, n, a):
    i = it(a[0])
    if i is None: return NotImplemented
    for k, x in enumerate(i):
        if ex.branch(ex.call_closure(a[1], [x])): return some(u64(k))
    return none()


def I_last(ex, n, a):
    i = itc(a[0])
    if i is None: return NotImplemented
    last = None
    for x in i: last = x
    return none() if last is None else some(last)


def I_nth(ex, n, a):
    i = it(a[0])
    if i is None: return NotImplemented
    if not a[1].concrete: raise Unmodelled('nth(symbolic)')
    for k, x in enumerate(i):
        if k == a[1].e: return some(x)
    return none()


def _extremum(ex, i, keyf, want_max, by=None):
    best = None; bk = None
    for x in i:
        k = keyf(x)
        if best is None: best, bk = x, k; continue
        if by is not None:
            o = by(bk, k)   # Ordering of (best, x)
            take = (o.variant != 2) if want_max else (o.variant == 2)     # max: last max wins (best <= x); min: first min wins (best > x)
        else:
            lt, eq = values_lt_eq(ex, k, bk)       # k < bk, k == bk
            if want_max: take = ex.branch(b_not(lt))           # x >= best  -> x (std: last maximum)
            else: take = ex.branch(lt)                         # x < best   -> x (std: first minimum)
        if take: best, bk = x, k
    return none() if best is None else some(best)


def I_max_by_key(ex, n, a):
    i = itc(a[0])
    if i is None:
        import os
        if os.environ.get('MIRSYM_DEBUG'): print('max_by_key receiver not convertible:', repr(a[0])[:600], getattr(a[0], 'name', None))
        return NotImplemented
    return _extremum(ex, i, lambda x: ex.call_closure(a[1], [Ref(Cell(x))]), True)


def I_min_by_key(ex, n, a):
    i = itc(a[0])
    if i is None: return NotImplemented
    return _extremum(ex, i, lambda x: ex.call_closure(a[1], [Ref(Cell(x))]), False)


def I_max(ex, n, a):
    i = itc(a[0])
    if i is None: return NotImplemented
    return _extremum(ex, i, lambda x: x, True)


def I_min(ex, n, a):
    i = itc(a[0])
    if i is None: return NotImplemented
    return _extremum(ex, i, lambda x: x, False)


def I_max_by(ex, n, a):
    i = itc(a[0])
    if i is None: return NotImplemented
    return _extremum(ex, i, lambda x: x, True, by=lambda p, q: ex.call_closure(a[1], [Ref(Cell(p)), Ref(Cell(q))]))


def I_min_by(ex, n, a):
    i = itc(a[0])
    if i is None: return NotImplemented
    return _extremum(ex, i, lambda x: x, False, by=lambda p, q: ex.call_closure(a[1], [Ref(Cell(p)), Ref(Cell(q))]))


def I_collect(ex, n, a):
    i = itc(a[0])
    if i is None: return NotImplemented
    m = re.search(r'(?:collect|from_iter)::<(.*)>$', n)
    target = m.group(1) if m else ''
    if not m:
        selfp, trait, _ = parse_name(n)
        target = selfp
    return collect_into(ex, i, target)


def collect_into(ex, i, target):
    t = target.strip()
    if re.match(r'(std::)?(vec::)?Vec<|std::collections::VecDeque<|\[', t) or t.startswith('std::boxed::Box<['):
        return VecV(list(i))
    mm = re.match(r'std::collections::(BTreeMap|HashMap|BTreeSet|HashSet)<|im::(HashMap|OrdMap|HashSet)<', t)
    if mm:
        kind = mm.group(1) or mm.group(2)
        m = MapV([], ordered=kind.startswith('BTree') or kind == 'OrdMap', kind='set' if kind.endswith('Set') else 'map')
        for x in i:
            if m.kind == 'set': map_insert(ex, m, x, UNIT)
            else: map_insert(ex, m, x.fields[0], x.fields[1])
        return m
    if t.startswith('std::result::Result<'):
        inner = t[len('std::result::Result<'):]
        # Result<C, E>: stop at the first Err
        depth = 0; cut = None
        for k, c in enumerate(inner):
            if c in '<([': depth += 1
            elif c in '>)]' and inner[k - 1] != '-': depth -= 1
            elif c == ',' and depth == 0: cut = k; break
        ctarget = inner[:cut] if cut else inner
        okv = []
        for x in i:
            if x.variant == 1: return x
            okv.append(x.fields[0])
        return ok(collect_into(ex, IterV(iter(okv)), ctarget))
    if t.startswith('std::option::Option<'):
        okv = []
        for x in i:
            if x.variant == 0: return none()
            okv.append(x.fields[0])
        return some(collect_into(ex, IterV(iter(okv)), t[len('std::option::Option<'):-1]))
    if t.startswith('bit_vec::BitVec'):
        return BitVecV(list(i))
    if t in ('_', ''):
        return VecV(list(i))
    raise Unmodelled(f'collect into {t}')


def S_chunk_by(ex, n, a):
    """<[T]>::chunk_by(pred): maximal runs of consecutive elements related by pred(&a, &b), as sub-slices (lazy, like std)"""
    v = recv(a)
    if not isinstance(v, VecV): return NotImplemented
    pred = a[1]; items = list(v.items)
    def g():
        i = 0
        while i < len(items):
            j = i + 1
            while j < len(items) and ex.branch(ex.call_closure(pred, [Ref(Cell(items[j - 1])), Ref(Cell(items[j]))])): j += 1
            yield Ref(Cell(VecV(items[i:j], 'slice')))
            i = j
    return IterV(g())


def M_range(ex, n, a):
    """BTreeMap::range(lo..hi | lo.. | ..hi | ..): entries in key order whose key lies in the range (forks on symbolic comparisons)"""
    m = recv(a)
    if not isinstance(m, MapV) or not m.ordered or not isinstance(a[1], Agg): return NotImplemented
    rng = a[1]; nm = rng.name or ''
    lo = hi = None
    if nm.endswith('RangeFull'): pass
    elif nm.endswith('RangeFrom'): lo = rng.fields[0]
    elif nm.endswith('RangeTo'): hi = rng.fields[0]
    elif nm.endswith('Range'): lo, hi = rng.fields[0], rng.fields[1]
    else: return NotImplemented
    def g():
        for k, c in map_order(ex, m):
            if lo is not None:
                lt, eq = values_lt_eq(ex, k, deref_all(lo))
                if ex.branch(lt): continue
            if hi is not None:
                lt, eq = values_lt_eq(ex, k, deref_all(hi))
                if not ex.branch(lt): continue
            yield tup(Ref(Cell(k)), Ref(c))
    return IterV(g())


def S_chunks(ex, n, a):
    """<[T]>::chunks(n): consecutive sub-slices of n elements (the last one shorter); n must be concrete"""
    v = recv(a)
    if not isinstance(v, VecV) or not isinstance(a[1], Num): return NotImplemented
    if not a[1].concrete: raise Unmodelled('chunks with a symbolic chunk size')
    k = a[1].e
    if k == 0: raise Panic('chunk size must be non-zero')
    items = list(v.items)
    return IterV(iter([Ref(Cell(VecV(items[i:i + k], 'slice'))) for i in range(0, len(items), k)]))


def I_unzip(ex, n, a):
    i = it(a[0])
    if i is None: return NotImplemented
    m = re.search(r'unzip::<(.*)>$', n)
    parts = []
    if m:
        depth = 0; cur = ''
        for c in m.group(1):
            if c in '<([': depth += 1
            elif c in '>)]': depth -= 1
            if c == ',' and depth == 0: parts.append(cur.strip()); cur = ''
            else: cur += c
        parts.append(cur.strip())
    xs = []; ys = []
    for p in i:
        xs.append(p.fields[0]); ys.append(p.fields[1])
    ta = parts[2] if len(parts) >= 4 else 'std::vec::Vec<_>'
    tb = parts[3] if len(parts) >= 4 else 'std::vec::Vec<_>'
    return tup(collect_into(ex, IterV(iter(xs)), ta), collect_into(ex, IterV(iter(ys)), tb))


def I_extend(ex, n, a):
    v = recv(a)
    if isinstance(v, VecV):
        for x in as_iter(ex, a[1]): v.items.append(x)
        return UNIT
    if isinstance(v, MapV):
        for x in as_iter(ex, a[1]):
            if v.kind == 'set': map_insert(ex, v, x, UNIT)
            else: map_insert(ex, v, x.fields[0], x.fields[1])
        return UNIT
    return NotImplemented


# ---- Option / Result (only used when no MIR body is available)
def opt(a0):
    v = a0
    return v if isinstance(v, Agg) and v.kind == 'adt' else None


def O_unwrap(ex, n, a):
    o = opt(a[0])
    if o is None: return NotImplemented
    selfp = parse_name(n)[0]
    if re.match(r'(std|core)::option::Option\b', selfp):
        if o.variant == 0: raise Panic('called `Option::unwrap()` on a `None` value')
        return o.fields[0]
    if re.match(r'(std|core)::result::Result\b', selfp):
        if o.variant == 1: raise Panic('called `Result::unwrap()` on an `Err` value')
        return o.fields[0]
    return NotImplemented


def O_expect(ex, n, a):
    return O_unwrap(ex, n, a)


def O_unwrap_err(ex, n, a):
    o = opt(a[0])
    if o is None: return NotImplemented
    if o.variant == 0: raise Panic('called `Result::unwrap_err()` on an `Ok` value')
    return o.fields[0]


def O_is_some(ex, n, a):
    o = deref_all(a[0])
    return (o.variant == 1) if isinstance(o, Agg) else NotImplemented


def O_is_none(ex, n, a):
    o = deref_all(a[0])
    return (o.variant == 0) if isinstance(o, Agg) else NotImplemented


def O_is_ok(ex, n, a):
    o = deref_all(a[0])
    return (o.variant == 0) if isinstance(o, Agg) else NotImplemented


def O_is_err(ex, n, a):
    o = deref_all(a[0])
    return (o.variant == 1) if isinstance(o, Agg) else NotImplemented


def O_as_ref(ex, n, a):
    if not isinstance(a[0], Ref): return NotImplemented
    o = a[0].get()
    if isinstance(o, BoxV): return Ref(o.cell)
    if not isinstance(o, Agg): return a[0]         # AsRef identity-like (Vec -> slice)
    selfp = parse_name(n)[0]
    if re.match(r'(std|core)::option::Option\b', selfp):
        return none() if o.variant == 0 else some(Ref(a[0].cell, a[0].path + (('field', 0),)))
    if re.match(r'(std|core)::result::Result\b', selfp):
        return Agg('adt', 'Result', o.variant, [Ref(a[0].cell, a[0].path + (('field', 0),))])
    return a[0]


def O_as_mut(ex, n, a):
    return O_as_ref(ex, n, a)


def O_as_deref(ex, n, a):
    o = deref_all(a[0])
    if not isinstance(o, Agg): return NotImplemented
    if o.variant == 0: return none()
    inner = o.fields[0]
    while isinstance(inner, Ref) and isinstance(inner.get(), (Ref, BoxV)):
        inner = inner.get() if isinstance(inner.get(), Ref) else Ref(inner.get().cell)
    if isinstance(inner, BoxV): inner = Ref(inner.cell)
    return some(inner if isinstance(inner, Ref) else Ref(Cell(inner)))


def O_copied(ex, n, a):
    i = it(a[0])
    if i is not None: return IterV((copy_value(deref_once(x)) for x in i))
    o = opt(a[0])
    if o is None: return NotImplemented
    return none() if o.variant == 0 else some(copy_value(deref_once(o.fields[0])))


def O_cloned(ex, n, a):
    i = it(a[0])
    if i is not None: return I_cloned(ex, n, a)
    o = opt(a[0])
    if o is None: return NotImplemented
    return none() if o.variant == 0 else some(clone_value(ex, deref_once(o.fields[0])))


def O_take(ex, n, a):
    i = it(a[0])
    if i is not None and len(a) == 2: return I_take(ex, n, a)
    if isinstance(a[0], Ref) and isinstance(a[0].get(), Agg) and len(a) == 1:
        o = a[0].get(); a[0].set(none()); return o
    return NotImplemented


def O_replace(ex, n, a):
    if isinstance(a[0], Ref) and len(a) == 2:
        old = a[0].get()
        if re.match(r'(std|core)::option::Option\b', parse_name(n)[0]):
            a[0].set(some(a[1])); return old
        a[0].set(a[1]); return old
    return NotImplemented


# ---- Try / conversions
def T_branch(ex, n, a):
    v = a[0]
    if not isinstance(v, Agg): return NotImplemented
    selfp = parse_name(n)[0]
    if selfp.startswith('std::result::Result') or selfp.startswith('core::result::Result'):
        return cf_continue(v.fields[0]) if v.variant == 0 else cf_break(err(v.fields[0]))
    if re.match(r'(std|core)::option::Option<', selfp):
        return cf_continue(v.fields[0]) if v.variant == 1 else cf_break(none())
    if 'Poll' in selfp:
        return NotImplemented
    return NotImplemented


def T_from_residual(ex, n, a):
    v = a[0]
    if not isinstance(v, Agg): return NotImplemented
    selfp = parse_name(n)[0]
    if re.match(r'(std|core)::result::Result<', selfp):
        if not v.fields: raise Unmodelled(f'from_residual of {v!r} in {n}')
        e = v.fields[0]
        conv = getattr(ex, 'error_from', None)
        return err(conv(ex, n, e) if conv else e)
    if selfp.startswith('std::option::Option') or selfp.startswith('core::option::Option'):
        return none()
    return NotImplemented


def identity(ex, n, a): return a[0]


def C_clone(ex, n, a):
    v = a[0].get() if isinstance(a[0], Ref) else a[0]
    return clone_value(ex, v)


def C_eq(ex, n, a): return values_equal(ex, a[0], a[1])
def C_ne(ex, n, a): return b_not(values_equal(ex, a[0], a[1]))


def C_cmp_family(op):
    def f(ex, n, a):
        lt, eq = values_lt_eq(ex, a[0], a[1])
        return {'lt': lt, 'le': b_or(lt, eq), 'gt': b_not(b_or(lt, eq)), 'ge': b_not(lt)}[op]
    f.__name__ = 'C_' + op
    return f


def C_cmp(ex, n, a):
    lt, eq = values_lt_eq(ex, a[0], a[1])
    return ordering(ex, lt, eq)


def C_partial_cmp(ex, n, a):
    return some(C_cmp(ex, n, a))


def C_max(ex, n, a):
    if len(a) != 2: return NotImplemented
    x, y = a
    if isinstance(x, Num) and isinstance(y, Num): return ite_num(ex, num_cmp('Gt', x, y), x, y)
    lt, eq = values_lt_eq(ex, y, x)
    return x if ex.branch(lt) else y          # max(a, b): b unless a > b


def C_min(ex, n, a):
    if len(a) != 2: return NotImplemented
    x, y = a
    if isinstance(x, Num) and isinstance(y, Num): return ite_num(ex, num_cmp('Le', x, y), x, y)
    lt, eq = values_lt_eq(ex, y, x)
    return y if ex.branch(lt) else x          # min(a, b): a unless b < a


def ite_num(ex, c, x, y):
    if isinstance(c, bool): return x if c else y
    xe, ye = x.e, y.e
    if not is_sym(xe): xe = z3.IntVal(xe) if (not is_sym(ye) or z3.is_int(ye)) else z3.BitVecVal(xe, x.bits)
    if not is_sym(ye): ye = z3.IntVal(ye) if z3.is_int(xe) else z3.BitVecVal(ye, y.bits)
    return Num(z3.If(c, xe, ye), x.bits, x.signed)


# ---- integer helpers
def _int_ty(selfp):
    m = re.search(r'impl (u|i)(8|16|32|64|128|size)', selfp)
    if not m: return None
    bits = 64 if m.group(2) == 'size' else int(m.group(2))
    return bits, m.group(1) == 'i'


def N_checked(op):
    def f(ex, n, a):
        if not (isinstance(a[0], Num) and isinstance(a[1], Num)): return NotImplemented
        if op in ('Div', 'Rem'):
            if ex.branch(num_cmp('Eq', a[1], Num(0, a[1].bits, a[1].signed))): return none()
            return some(num_arith(op, a[0], a[1]))
        num_checked.raw = None
        r, ovf = num_checked(op, a[0], a[1])
        raw = num_checked.raw
        if ex.branch(ovf): return none()
        return some(Num(raw, r.bits, r.signed) if raw is not None else r)
    f.__name__ = 'checked_' + op.lower()
    return f


def N_saturating(op):
    def f(ex, n, a):
        x, y = a
        if not (isinstance(x, Num) and isinstance(y, Num)): return NotImplemented
        r, ovf = num_checked(op, x, y)
        if isinstance(ovf, bool):
            if not ovf: return r
        if x.signed:
            if ex.branch(b_not(ovf)): return r
            neg = num_cmp('Lt', x, Num(0, x.bits, True)) if op != 'Mul' else b_not(num_cmp('Lt', x, Num(0, x.bits, True)) == num_cmp('Lt', y, Num(0, x.bits, True))) if False else None
            if op == 'Add': lowside = num_cmp('Lt', y, Num(0, y.bits, True))
            elif op == 'Sub': lowside = num_cmp('Gt', y, Num(0, y.bits, True))
            else:
                xn = ex.branch(num_cmp('Lt', x, Num(0, x.bits, True))); yn = ex.branch(num_cmp('Lt', y, Num(0, y.bits, True)))
                lowside = xn != yn
            return Num(x.lo(), x.bits, True) if ex.branch(lowside) else Num(x.hi(), x.bits, True)
        sat = Num(x.hi() if op in ('Add', 'Mul') else 0, x.bits, False)
        return ite_num(ex, ovf, sat, r)
    f.__name__ = 'saturating_' + op.lower()
    return f


def N_wrapping(op):
    def f(ex, n, a):
        if not (isinstance(a[0], Num) and isinstance(a[1], Num)): return NotImplemented
        return num_arith(op, a[0], a[1])
    f.__name__ = 'wrapping_' + op.lower()
    return f


def N_overflowing(op):
    def f(ex, n, a):
        if not (isinstance(a[0], Num) and isinstance(a[1], Num)): return NotImplemented
        r, ovf = num_checked(op, a[0], a[1])
        return tup(r, ovf)
    return f


def N_abs_diff(ex, n, a):
    x, y = a
    if not isinstance(x, Num): return NotImplemented
    if ex.branch(num_cmp('Ge', x, y)): return num_arith('Sub', x, y)
    return num_arith('Sub', y, x)


def N_pow(ex, n, a):
    x, y = a
    if not isinstance(x, Num) or not y.concrete: return NotImplemented
    acc = Num(1, x.bits, x.signed)
    for _ in range(y.e):
        r, ovf = num_checked('Mul', acc, x)
        if not ex.branch(b_not(ovf)): raise Panic('attempt to multiply with overflow')
        acc = r
    return acc


def N_from_bytes(ex, n, a):
    """uN::from_le_bytes / from_be_bytes on an array of (possibly symbolic) bytes"""
    arr = deref_all(a[0])
    t = _int_ty(parse_name(n)[0])
    if not isinstance(arr, VecV) or t is None: return NotImplemented
    items = list(arr.items)
    if n.endswith('from_be_bytes'): items = items[::-1]
    acc = None
    for i, b in enumerate(items):
        term = b if i == 0 else num_arith('Mul', num_cast(b, t[0], False), Num(1 << (8 * i), t[0], False), wrapping=False)
        term = num_cast(term, t[0], False)
        acc = term if acc is None else num_arith('Add', acc, term, wrapping=False)
    return num_cast(acc, t[0], t[1]) if acc is not None else Num(0, t[0], t[1])


def N_to_bytes(ex, n, a):
    return Opaque(('bytes_of', a[0].e if isinstance(a[0], Num) else a[0]))


def N_from(ex, n, a):
    selfp, trait, m = parse_name(n)
    # <HashMap<K, V> as From<[(K, V); N]>>::from / BTreeMap likewise: a map from an array of pairs (later duplicates overwrite)
    if isinstance(a[0], VecV) and re.match(r'std::collections::(BTreeMap|HashMap|BTreeSet|HashSet)<', selfp or ''):
        return collect_into(ex, IterV(iter(list(a[0].items))), selfp)
    mt = re.fullmatch(r'(u|i)(8|16|32|64|128|size)', selfp)
    if mt and isinstance(a[0], Num):
        r = num_cast(a[0], 64 if mt.group(2) == 'size' else int(mt.group(2)), mt.group(1) == 'i')
        if not a[0].signed and not r.signed and a[0].bits < r.bits and not r.concrete:
            from .core import NumB
            return NumB(r.e, r.bits, r.signed, 1 << a[0].bits)       # zero-extension: the value stays below 2^(source width)
        return r
    if mt and isinstance(a[0], (bool, z3.BoolRef)):
        bits = 64 if mt.group(2) == 'size' else int(mt.group(2))
        if isinstance(a[0], bool): return Num(int(a[0]), bits, mt.group(1) == 'i')
        return Num(z3.If(a[0], z3.IntVal(1), z3.IntVal(0)) if ex.intmode else z3.If(a[0], z3.BitVecVal(1, bits), z3.BitVecVal(0, bits)), bits, mt.group(1) == 'i')
    return NotImplemented


def N_try_from(ex, n, a):
    selfp, trait, m = parse_name(n)
    mt = re.fullmatch(r'(u|i)(8|16|32|64|128|size)', selfp)
    if mt and isinstance(a[0], Num):
        bits = 64 if mt.group(2) == 'size' else int(mt.group(2)); signed = mt.group(1) == 'i'
        x = a[0]
        tgt = Num(0, bits, signed)
        fits = b_and(num_cmp('Ge', x, Num(max(tgt.lo(), x.lo()), x.bits, x.signed)) if tgt.lo() > x.lo() else True,
                     num_cmp('Le', x, Num(min(tgt.hi(), x.hi()), x.bits, x.signed)) if tgt.hi() < x.hi() else True)
        if ex.branch(fits):
            return ok(Num(x.e, bits, signed) if (not x.concrete and not z3.is_bv(x.e)) or x.concrete else num_cast(x, bits, signed))
        return err(Opaque('TryFromIntError'))
    return NotImplemented


def M_new(ex, n, a):
    selfp = parse_name(n)[0]
    if a:
        if re.match(r'std::(sync::Arc|rc::Rc)', selfp): return BoxV(a[0])
        if re.match(r'std::boxed::Box', selfp): return BoxV(a[0])
        if re.match(r'std::pin::Pin', selfp): return a[0]
        if re.match(r'std::(sync::Mutex|cell::RefCell|cell::Cell|sync::RwLock)', selfp): return BoxV(a[0])
        return NotImplemented
    if re.match(r'std::vec::Vec|std::collections::VecDeque', selfp): return VecV([])
    mm = re.match(r'std::collections::(BTreeMap|HashMap|BTreeSet|HashSet)|im::(HashMap|HashSet|OrdMap)', selfp)
    if mm:
        kind = mm.group(1) or mm.group(2)
        return MapV([], ordered=kind.startswith('BTree') or kind == 'OrdMap', kind='set' if kind.endswith('Set') else 'map')
    if selfp.startswith('std::string::String'): return StrV('')
    return NotImplemented


def M_default(ex, n, a):
    selfp = parse_name(n)[0]
    r = M_new(ex, selfp + '::new', [])
    if r is not NotImplemented: return r
    if selfp.startswith('std::option::Option'): return none()
    mt = re.fullmatch(r'(u|i)(8|16|32|64|128|size)', selfp)
    if mt: return Num(0, 64 if mt.group(2) == 'size' else int(mt.group(2)), mt.group(1) == 'i')
    if selfp == 'bool': return False
    return NotImplemented


def M_with_capacity(ex, n, a):
    return M_new(ex, parse_name(n)[0] + '::new', [])


def M_deref(ex, n, a):
    v = a[0].get() if isinstance(a[0], Ref) else a[0]
    if isinstance(v, BoxV): return Ref(v.cell)
    if isinstance(v, (VecV, StrV, MapV, BitVecV)): return a[0]
    if isinstance(v, Ref): return v
    return NotImplemented


def M_to_vec(ex, n, a):
    v = recv(a)
    if isinstance(v, VecV): return VecV([clone_value(ex, x) for x in v.items])
    return NotImplemented


def M_as_slice(ex, n, a):
    v = recv(a)
    if isinstance(v, VecV): return vec_ref(a[0]) if isinstance(a[0], Ref) else a[0]
    return NotImplemented


def M_first(ex, n, a):
    return M_front(ex, n, a)


def M_last(ex, n, a):
    i = it(a[0])
    if i is not None: return I_last(ex, n, a)
    return M_back(ex, n, a)


def M_swap(ex, n, a):
    if len(a) == 2 and isinstance(a[0], Ref) and isinstance(a[1], Ref):
        x, y = a[0].get(), a[1].get(); a[0].set(y); a[1].set(x); return UNIT
    return NotImplemented


def M_mem_replace(ex, n, a):
    old = a[0].get(); a[0].set(a[1]); return old


def M_mem_take(ex, n, a):
    old = a[0].get()
    if isinstance(old, VecV): a[0].set(VecV([]))
    elif isinstance(old, MapV): a[0].set(MapV([], old.ordered, old.kind))
    elif isinstance(old, Agg) and old.name == 'Option': a[0].set(none())
    elif isinstance(old, Num): a[0].set(Num(0, old.bits, old.signed))
    else: return NotImplemented
    return old


def M_drop(ex, n, a): return UNIT


# ---- bit_vec::BitVec
def bvrecv(a):
    v = deref_all(a[0]) if a else None
    return v if isinstance(v, BitVecV) else None


def B_from_elem(ex, n, a):
    if 'BitVec' not in n: return NotImplemented
    if not a[0].concrete: raise Unmodelled('BitVec::from_elem with symbolic length')
    return BitVecV([a[1]] * a[0].e)


def B_none(ex, n, a):
    v = bvrecv(a)
    if v is None: return NotImplemented
    return b_not(b_or(*v.bits)) if v.bits else True


def B_any(ex, n, a):
    v = bvrecv(a)
    if v is None:
        return I_any(ex, n, a)
    return b_or(*v.bits) if v.bits else False


def B_all(ex, n, a):
    v = bvrecv(a)
    if v is None:
        return I_all(ex, n, a)
    return b_and(*v.bits) if v.bits else True


def _bv_binop(op):
    def f(ex, n, a):
        v = bvrecv(a)
        if v is None: return NotImplemented
        o = deref_all(a[1])
        if len(v.bits) != len(o.bits):
            raise Panic('assertion `left == right` failed (BitVec length mismatch)')
        new = [op(x, y) for x, y in zip(v.bits, o.bits)]
        changed = b_or(*[b_not(values_equal(ex, x, y)) for x, y in zip(v.bits, new)]) if new else False
        v.bits[:] = new
        return changed
    return f


def B_set(ex, n, a):
    v = bvrecv(a)
    if v is None: return NotImplemented
    idx = a[1]
    if not ex.branch(num_cmp('Lt', idx, u64(len(v.bits)))): raise Panic('index out of bounds (BitVec::set)')
    k = ex.concretize_index(idx, len(v.bits))
    v.bits[k] = a[2]
    return UNIT


METHODS = {
    'len': [M_len], 'is_empty': [M_is_empty], 'index': [M_index], 'index_mut': [M_index], 'get': [M_entry_get, M_get], 'get_mut': [M_entry_get, M_get_mut], 'into_mut': [M_entry_get], 'key': [M_entry_key], 'remove_entry': [M_entry_remove, M_remove_entry],
    'contains_key': [M_contains_key], 'contains': [M_contains], 'insert': [M_entry_insert, M_insert], 'remove': [M_entry_remove, M_remove], 'push': [M_push], 'push_back': [M_push],
    'push_front': [M_push_front], 'pop': [M_pop], 'pop_back': [M_pop], 'pop_front': [M_pop_front], 'front': [M_front], 'back': [M_back],
    'first': [M_first], 'last': [M_last], 'first_key_value': [M_first_key_value], 'last_key_value': [M_last_key_value], 'pop_first': [M_pop_first], 'pop_last': [M_pop_last], 'first_entry': [M_first_entry], 'last_entry': [M_last_entry],
    'split_off': [M_split_off], 'append': [M_append], 'clear': [M_clear], 'truncate': [M_truncate], 'retain': [M_retain], 'retain_mut': [M_retain],
    'iter': [M_iter], 'iter_mut': [M_iter], 'keys': [M_keys], 'values': [M_values], 'values_mut': [M_values], 'into_values': [M_into_values], 'into_keys': [M_into_keys],
    'into_iter': [M_into_iter], 'entry': [M_entry], 'or_default': [M_or_default], 'or_insert': [M_or_insert], 'or_insert_with': [M_or_insert_with],
    'next': [M_next], 'enumerate': [I_enumerate], 'map': [I_map], 'filter': [I_filter], 'filter_map': [I_filter_map], 'flat_map': [I_flat_map], 'flatten': [I_flatten],
    'zip': [I_zip], 'chain': [I_chain], 'rev': [I_rev], 'take': [O_take], 'skip': [I_skip], 'cloned': [O_cloned], 'copied': [O_copied], 'peekable': [I_peekable], 'by_ref': [I_by_ref],
    'fold': [I_fold], 'for_each': [I_for_each], 'count': [I_count], 'sum': [I_sum], 'all': [B_all], 'any': [B_any], 'find': [I_find], 'find_map': [I_find_map], 'position': [I_position],
    'nth': [I_nth], 'max_by_key': [I_max_by_key], 'min_by_key': [I_min_by_key], 'max': [I_max, C_max], 'min': [I_min, C_min], 'max_by': [I_max_by], 'min_by': [I_min_by],
    'chunk_by': [S_chunk_by], 'chunks': [S_chunks], 'range': [M_range], 'unzip': [I_unzip], 'collect': [I_collect], 'from_iter': [I_collect], 'extend': [I_extend],
    'unwrap': [O_unwrap], 'expect': [O_expect], 'unwrap_err': [O_unwrap_err], 'is_some': [O_is_some], 'is_none': [O_is_none], 'is_ok': [O_is_ok], 'is_err': [O_is_err],
    'as_ref': [O_as_ref], 'as_mut': [O_as_mut], 'as_deref': [O_as_deref], 'as_deref_mut': [O_as_deref], 'replace': [O_replace],
    'branch': [T_branch], 'from_residual': [T_from_residual],
    'clone': [C_clone], 'eq': [C_eq], 'ne': [C_ne], 'lt': [C_cmp_family('lt')], 'le': [C_cmp_family('le')], 'gt': [C_cmp_family('gt')], 'ge': [C_cmp_family('ge')],
    'cmp': [C_cmp], 'partial_cmp': [C_partial_cmp],
    'checked_add': [N_checked('Add')], 'checked_sub': [N_checked('Sub')], 'checked_mul': [N_checked('Mul')], 'checked_div': [N_checked('Div')], 'checked_rem': [N_checked('Rem')],
    'saturating_add': [N_saturating('Add')], 'saturating_sub': [N_saturating('Sub')], 'saturating_mul': [N_saturating('Mul')],
    'wrapping_add': [N_wrapping('Add')], 'wrapping_sub': [N_wrapping('Sub')], 'wrapping_mul': [N_wrapping('Mul')],
    'overflowing_add': [N_overflowing('Add')], 'overflowing_sub': [N_overflowing('Sub')], 'overflowing_mul': [N_overflowing('Mul')],
    'abs_diff': [N_abs_diff], 'pow': [N_pow], 'to_be_bytes': [N_to_bytes], 'to_le_bytes': [N_to_bytes], 'from_le_bytes': [N_from_bytes], 'from_be_bytes': [N_from_bytes],
    'from': [N_from], 'try_from': [N_try_from], 'into': [N_from],
    'new': [M_new], 'default': [M_default], 'with_capacity': [M_with_capacity], 'deref': [M_deref], 'deref_mut': [M_deref], 'borrow': [M_deref], 'borrow_mut': [M_deref],
    'to_vec': [M_to_vec], 'as_slice': [M_as_slice], 'as_mut_slice': [M_as_slice], 'swap': [M_swap], 'drop': [M_drop],
    'from_elem': [B_from_elem], 'none': [B_none], 'and': [_bv_binop(lambda x, y: b_and(x, y))], 'or': [_bv_binop(lambda x, y: b_or(x, y))], 'set': [B_set],
    'into_future': [identity], 'new_unchecked': [identity], 'into_inner': [], 'get_unchecked_mut': [identity], 'as_mut_': [],
}

def box_dyn_call(ex, n, a):
    callee = deref_all(a[0])
    inner = list(a[1].fields) if isinstance(a[1], Agg) and a[1].kind == 'tuple' else [a[1]]
    if isinstance(callee, FnVal): return ex.call(callee, inner)
    if isinstance(callee, Agg) and callee.kind == 'closure': return ex.call_closure(callee, inner)
    return NotImplemented


FULLNAME = [
    (re.compile(r'<std::boxed::Box<dyn .*> as std::ops::Fn(Mut|Once)?<.*>>::call(_once|_mut)?'), box_dyn_call),
    (re.compile(r'std::mem::replace::<.*>'), M_mem_replace),
    (re.compile(r'std::mem::take::<.*>'), M_mem_take),
    (re.compile(r'std::mem::swap::<.*>'), M_swap),
    (re.compile(r'std::mem::(drop|forget)::<.*>'), M_drop),
    (re.compile(r'std::cmp::max::<.*>'), C_max),
    (re.compile(r'std::cmp::min::<.*>'), C_min),
    (re.compile(r'std::ptr::drop_in_place::<.*>'), M_drop),
    (re.compile(r'std::convert::identity::<.*>'), identity),
    (re.compile(r'std::hint::black_box::<.*>'), identity),
    (re.compile(r'std::intrinsics::(un)?likely'), identity),
    (re.compile(r'std::intrinsics::cold_path'), lambda ex, n, a: UNIT),
]

PANICS = re.compile(r'(core|std)::(panicking::(panic\w*|assert_failed\w*|unreachable_display|panic_display)(::<.*>)?|option::(unwrap_failed|expect_failed)|result::unwrap_failed|slice::index::\w+_fail|rt::(begin_panic\w*|panic_fmt)(::<.*>)?|process::abort|intrinsics::abort|cell::panic_already\w+|str::slice_error_fail)|alloc::(raw_vec::capacity_overflow|alloc::handle_alloc_error)|std::alloc::handle_alloc_error')


def do_panic(ex, n, a):
    msg = ''
    for x in a:
        x = deref_all(x)
        if isinstance(x, StrV): msg = x.s; break
    short = n.split('::<')[0]
    raise Panic(f'{short}: {msg}' if msg else short)


def lookup(ex, name, args):
    if PANICS.match(name): return do_panic
    for rx, fn in FULLNAME:
        if rx.fullmatch(name): return fn
    selfp, trait, method = parse_name(name)
    hs = METHODS.get(method)
    if not hs: return None
    if len(hs) == 1: return hs[0]
    def multi(ex, n, a):
        for h in hs:
            r = h(ex, n, a)
            if r is not NotImplemented: return r
        return NotImplemented
    multi.__name__ = hs[0].__name__
    return multi


# ------------------------------------------------------------------------------------------- tokio watch (a cell)
class LazyEnum:
    """value of an enum type supplied by the environment whose variant is chosen (one path per listed variant) only
    when the program inspects it; until then it is passed around like an opaque value"""
    def __init__(self, ex, ty, variant_names, label, payload=None):
        self.ex = ex; self.ty = ty; self.names = variant_names; self.label = label; self.payload = payload; self.agg = None

    def resolve(self):
        if self.agg is None:
            vs = [v['name'] for v in self.ty['info']['variants']]
            name = self.names[self.ex.choose(len(self.names), self.label)]
            vi = vs.index(name)
            nf = len(self.ty['info']['variants'][vi]['fields'])
            self.agg = Agg('adt', self.ty, vi, [Opaque((self.label, name, i)) for i in range(nf)] if self.payload is None else self.payload(name))
        return self.agg

    def discriminant(self):
        a = self.resolve(); d = self.ty['info']['variants'][a.variant].get('discr')
        return int(d) if d is not None else a.variant

    def proj_downcast(self, a):
        r = self.resolve()
        if r.variant != a: raise Unmodelled(f'downcast {a} of {r!r}')
        return r

    def proj_field(self, a): return self.resolve().fields[a]
    def py_clone(self, ex): return self
    def __repr__(self): return f'LazyEnum({self.label}: {self.agg!r})'


class WatchV:
    """tokio::sync::watch channel state shared by Sender and Receivers: a cell"""
    __slots__ = ('cell', 'version')

    def __init__(self, v):
        self.cell = v if isinstance(v, Cell) else Cell(v); self.version = 0

    def py_clone(self, ex): return self
    def py_eq(self, ex, o): return self is o
    def __repr__(self): return f'Watch({self.cell.v!r})'


def deref_all_cell(v):
    """the cell behind a (reference to a) watch sender / receiver / Arc"""
    while True:
        if isinstance(v, Ref): v = v.get()
        elif isinstance(v, BoxV): v = v.deref()
        elif isinstance(v, WatchV): return v.cell
        elif hasattr(v, 'watch'): return v.watch.cell
        elif isinstance(v, Agg) and len(v.fields) == 1: v = v.fields[0]
        else: raise Unmodelled(f'no watch cell behind {type(v).__name__}')
