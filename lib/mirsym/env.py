"""Environment models shared by the harnesses: error construction / formatting / logging are not the subject
of any check (they get empty bodies), crypto is an ideal model (keys and hashes are opaque identities)."""
import re
import z3
from .core import Num, Agg, Ref, Cell, Opaque, UNIT, Panic, Unmodelled, u64, num_cmp, b_not, b_and, b_or
from . import models as M
from .models import some, none, ok, err, tup, deref_all, values_equal, values_lt_eq, StrV, VecV

TRUSTED = [
    'anyhow / fmt / tracing / vise (metrics): error values, formatted strings and log events are opaque; logging is disabled (Level <= LevelFilter is false)',
    'ideal crypto: validator/node public keys, signatures and keccak hashes are opaque identities; Clone/Eq/Ord/Hash on them compare identities',
]


def anyhow_err(tag='anyhow::Error'):
    return Opaque(tag)


def m_context(ex, n, a):
    selfp = M.parse_name(n)[0]
    m = re.search(r' for (std::option::Option|std::result::Result)<', n)
    if m: selfp = m.group(1)
    v = a[0]
    if isinstance(v, Agg):
        if 'Option' in selfp.split('<')[0] or selfp.startswith('std::option::Option'):
            return ok(v.fields[0]) if v.variant == 1 else err(anyhow_err())
        return ok(v.fields[0]) if v.variant == 0 else err(anyhow_err())
    return anyhow_err()


def install(ex):
    """error/format/log plumbing"""
    ex.model(r'anyhow::__private::not::<bool>', lambda e, n, a: b_not(a[0]))
    ex.model(r'<.* as anyhow::Context<.*>>::(with_)?context::<.*>|anyhow::context::<impl anyhow::Context<.*> for .*>::(with_)?context::<.*>', m_context)
    ex.model(r'anyhow::Error::(msg|context|new|from_boxed|construct\w*)(::<.*>)?', lambda e, n, a: anyhow_err())
    ex.model(r'anyhow::__private::(format_err|must_use)', lambda e, n, a: a[0] if (a and isinstance(a[0], Opaque) and a[0].tag == 'anyhow::Error') else anyhow_err())
    ex.model(r'<anyhow::Error as std::convert::From<.*>>::from', lambda e, n, a: anyhow_err())
    ex.model(r'anyhow::.*', lambda e, n, a: anyhow_err())
    ex.model(r'(core|std)::fmt::(Arguments|rt::Argument|rt::Placeholder|rt::Count)(::<.*>)?::.*', lambda e, n, a: Opaque('fmt'))
    ex.model(r'(alloc|std)::fmt::format', lambda e, n, a: StrV('<formatted>'))
    ex.model(r'<.* as std::(string::ToString|fmt::Display|fmt::Debug)>::.*', lambda e, n, a: StrV('<formatted>'))
    ex.model(r'<(&)?str as std::(string::ToString|borrow::ToOwned)>::\w+|<std::string::String as std::convert::From<&str>>::from|std::string::String::from|<str as std::convert::Into<std::string::String>>::into', lambda e, n, a: a[0])
    # tracing: every event is guarded by `Level <= STATIC_MAX_LEVEL && Level <= LevelFilter::current()`: logging off
    ex.model(r'<tracing::Level as std::cmp::PartialOrd<tracing::level_filters::LevelFilter>>::le', lambda e, n, a: False)
    ex.model(r'tracing::Span::(is_disabled|is_none)|tracing::subscriber::Interest::is_never|tracing_core::subscriber::Interest::is_never', lambda e, n, a: True)
    ex.model(r'tracing::__macro_support::__is_enabled|tracing::Span::(has_field|is_enabled).*|tracing(_core)?::(dispatcher::)?Dispatch::enabled', lambda e, n, a: False)
    ex.model(r'tracing::.*|tracing_core::.*|<tracing::.*', lambda e, n, a: Opaque('tracing'))
    # reading a gauge yields an arbitrary number (it may be combined arithmetically with program values)
    ex.model(r'vise::.*Gauge.*::get', lambda e, n, a: e.fresh('gauge'))
    # functions of a `metrics` module (not every function whose generic arguments mention a metrics type)
    ex.model(r'vise::.*|<vise::.*|(\w+::)+metrics::.*|<(\w+::)+metrics::.*', lambda e, n, a: (print('metrics-model:', n[:200]) if __import__('os').environ.get('MIRSYM_DEBUG') else None, Opaque('metrics'))[1])
    ex.error_from = lambda e, n, v: v if not re.search(r'Result<.*anyhow::Error>', M.parse_name(n)[0]) else anyhow_err()


# ------------------------------------------------------------------------------------------------ ideal crypto
OPAQUE_TYPES = r'(zksync_consensus_roles::(validator|node)::(keys::\w+::)?(PublicKey|Signature|AggregateSignature|SecretKey|ProofOfPossession)|zksync_consensus_crypto::\w+::(PublicKey|Signature|AggregateSignature|SecretKey|ProofOfPossession|Keccak256)|zksync_consensus_roles::validator::(messages::\w+::)*(MsgHash|PayloadHash|GenesisHash|BlockHeaderHash))'


def install_ideal_crypto(ex):
    T = OPAQUE_TYPES
    ex.model(rf'<{T} as std::clone::Clone>::clone', lambda e, n, a: a[0].get())
    ex.model(rf'<{T} as std::cmp::PartialEq>::eq', lambda e, n, a: values_equal(e, a[0], a[1]))
    ex.model(rf'<{T} as std::cmp::PartialEq>::ne', lambda e, n, a: b_not(values_equal(e, a[0], a[1])))
    ex.model(rf'<{T} as std::cmp::Ord>::cmp', lambda e, n, a: M.C_cmp(e, n, a))
    ex.model(rf'<{T} as std::cmp::PartialOrd>::partial_cmp', lambda e, n, a: some(M.C_cmp(e, n, a)))
    for op in ('lt', 'le', 'gt', 'ge'):
        ex.model(rf'<{T} as std::cmp::PartialOrd>::{op}', M.C_cmp_family(op))
    ex.model(rf'<{T} as std::hash::Hash>::hash::<.*>', lambda e, n, a: UNIT)
