"""Program database over mirdump output (lazy: records are parsed on demand through the .idx files)."""
import glob, json, os, re


class DB:
    def __init__(self, prefix):
        self.prefix = prefix
        self.files = {}          # crate -> open file
        self.by_key = {}         # key -> (crate, off, len, rec, name)
        self.by_name = {}        # name -> [key]
        self.gen_by_name = {}    # generic item name -> def hash
        self.ty_idx = {}         # (crate, tyid) -> (off, len)
        self.ty_by_display = {}  # (crate, display) -> tyid
        self.adt_by_path = {}    # (crate, def path) -> [(tyid, display)]
        self.def_idx = {}        # (crate, defid) -> (off, len)
        self._cache = {}
        self._lookup_cache = {}
        self._ty = {}
        self._def = {}
        self.inst_by_def = None
        paths = sorted(glob.glob(prefix + '.zksync_*.jsonl'))
        if not paths:
            raise FileNotFoundError('no mirdump output at ' + prefix)
        for path in paths:
            crate = path[len(prefix) + 1:-len('.jsonl')]
            self.files[crate] = open(path, 'rb')
            with open(path + '.idx') as f:
                for line in f:
                    rec, key, name, off, ln = line.rstrip('\n').split('\t')
                    off = int(off); ln = int(ln)
                    if rec in ('fn', 'inst', 'prom'):
                        # prefer the defining crate's "fn" record over instance copies
                        old = self.by_key.get(key)
                        if old is None or (rec == 'fn' and old[3] != 'fn'):
                            self.by_key[key] = (crate, off, ln, rec, name)
                        self.by_name.setdefault(name, [])
                        if key not in self.by_name[name]:
                            self.by_name[name].append(key)
                    elif rec == 'gen':
                        self.gen_by_name[name] = key
                    elif rec == 'ty':
                        self.ty_idx[(crate, int(key))] = (off, ln)
                        if name.startswith('adt '):
                            path, _, disp = name[4:].partition(' | ')
                            self.adt_by_path.setdefault((crate, path), []).append((int(key), disp))
                            name = disp
                        self.ty_by_display.setdefault((crate, name), int(key))
                    elif rec == 'def':
                        self.def_idx[(crate, int(key))] = (off, ln)

    def _read(self, crate, off, ln):
        # positional read: safe when forked workers share the descriptor
        return json.loads(os.pread(self.files[crate].fileno(), ln, off))

    def body(self, key):
        """record (fn/inst/prom) for a mangled key, or None"""
        r = self._cache.get(key)
        if r is None:
            e = self.by_key.get(key)
            if e is None:
                return None
            r = self._read(e[0], e[1], e[2])
            r['crate'] = e[0]
            self._cache[key] = r
        return r

    def ty(self, crate, tid):
        k = (crate, tid)
        t = self._ty.get(k)
        if t is None:
            e = self.ty_idx.get(k)
            if e is None:
                return None
            t = self._read(crate, e[0], e[1])['ty']
            self._ty[k] = t
        return t

    def defn(self, crate, did):
        k = (crate, did)
        d = self._def.get(k)
        if d is None:
            e = self.def_idx.get(k)
            if e is None:
                return None
            d = self._read(crate, e[0], e[1])['def']
            self._def[k] = d
        return d

    def find(self, pattern, kinds=('fn', 'inst')):
        """keys of bodies whose name matches the regex fully"""
        rx = re.compile(pattern)
        out = []
        for name, keys in self.by_name.items():
            if rx.fullmatch(name):
                for k in keys:
                    if self.by_key[k][3] in kinds:
                        out.append(k)
        return out

    def find_one(self, pattern, kinds=('fn', 'inst')):
        ck = ('fn', pattern, kinds)
        if ck in self._lookup_cache:
            return self._lookup_cache[ck]
        ks = self.find(pattern, kinds)
        names = sorted({self.by_key[k][4] for k in ks})
        if len(ks) == 0:
            raise KeyError(f'no body matches {pattern}')
        if len(names) > 1:
            raise KeyError(f'ambiguous {pattern}: {names[:5]}')
        self._lookup_cache[ck] = ks[0]
        return ks[0]

    def find_ty(self, crate, pattern):
        """type-table entries (of one crate) whose display string matches the regex"""
        rx = re.compile(pattern)
        return [self.ty(c, tid) for (c, disp), tid in self.ty_by_display.items() if c == crate and rx.fullmatch(disp)]

    def adt(self, crate, path_pattern, display_pattern=None):
        """type-table entry of an ADT by canonical definition path (regex), optionally filtered by display"""
        ck = ('adt', crate, path_pattern, display_pattern)
        if ck in self._lookup_cache:
            return self._lookup_cache[ck]
        rx = re.compile(path_pattern); dx = re.compile(display_pattern) if display_pattern else None
        out = []
        for (c, path), lst in self.adt_by_path.items():
            if c == crate and rx.fullmatch(path):
                for tid, disp in lst:
                    if dx is None or dx.fullmatch(disp):
                        out.append(tid)
        if len(out) == 0:
            raise KeyError(f'no ADT {path_pattern} ({display_pattern}) in {crate}')
        if len(out) > 1 and display_pattern is None:
            # several instantiations: ambiguous unless all non-generic duplicates
            ds = sorted({self.ty(crate, t)['display'] for t in out})
            if len(ds) > 1:
                raise KeyError(f'ambiguous ADT {path_pattern} in {crate}: {ds[:4]}')
        self._lookup_cache[ck] = self.ty(crate, out[0])
        return self._lookup_cache[ck]

    def ty_named(self, crate, pattern):
        ts = self.find_ty(crate, pattern)
        if len(ts) != 1:
            raise KeyError(f'type {pattern} in {crate}: {len(ts)} matches {[t["display"] for t in ts][:4]}')
        return ts[0]
