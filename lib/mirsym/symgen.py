"""Symbolic values of arbitrary program types, generated from the mirdump type table (used for decoder sweeps and
round-trip checks): scalars are fresh symbols, Option / enum variants and repeated-field lengths are path choices."""
import re
import z3
from .core import Num, Agg, Ref, Cell, Opaque, Unmodelled, UNIT
from . import models as M
from .models import some, none, VecV, StrV, BoxV


class BytesV:
    """byte string with symbolic length and opaque content (Vec<u8> / Bytes / &[u8])"""
    _n = [0]

    def __init__(self, ln, ident=None):
        self.len = ln
        if ident is None:
            BytesV._n[0] += 1; ident = BytesV._n[0]
        self.ident = ident

    def py_clone(self, ex): return self
    def py_eq(self, ex, o): return isinstance(o, BytesV) and (self.ident == o.ident)
    def __repr__(self): return f'bytes#{self.ident}[len={self.len}]'


class SymGen:
    def __init__(self, ex, db, crate, max_depth=3, max_len=2, prefix='in'):
        self.ex = ex; self.db = db; self.crate = crate; self.max_depth = max_depth; self.max_len = max_len
        self.prefix = prefix; self.count = 0
        self.shape = []          # human-readable record of the choices on this path

    def fresh_name(self, hint):
        self.count += 1
        return f'{self.prefix}_{hint}_{self.count}'

    def of_type(self, tid, depth=0, hint='v'):
        t = self.db.ty(self.crate, tid)
        if t is None: raise Unmodelled(f'unknown type id {tid}')
        return self.of(t, depth, hint)

    def of(self, t, depth=0, hint='v'):
        ex = self.ex; info = t['info']; k = info.get('k'); disp = t['display']
        if k == 'int':
            return ex.fresh(self.fresh_name(hint), info['bits'], info['signed'])
        if k == 'bool':
            return z3.Bool(self.fresh_name(hint))
        if k == 'char':
            c = ex.fresh(self.fresh_name(hint), 32, False); ex.assume(c.e < 0x110000); return c
        if k == 'tuple':
            return Agg('tuple', 'tuple', 0, [self.of_type(e, depth, hint) for e in info['elems']]) if info['elems'] else UNIT
        if k in ('ref', 'ptr'):
            return Ref(Cell(self.of_type(info['to'], depth, hint)))
        if k in ('array',):
            return VecV([self.of_type(info['elem'], depth + 1, hint) for _ in range(info['len'] or 0)], 'array')
        if k == 'str':
            return StrV('<sym>')
        if k == 'adt':
            path = info.get('path') or info['name']
            targs = [a['ty'] for a in info.get('args', []) if isinstance(a, dict) and 'ty' in a]
            if path.endswith('option::Option'):
                if depth > self.max_depth or ex.choose(2, 'opt') == 1:
                    self.shape.append(f'{hint}=None'); return Agg('adt', t, 0, [])
                return Agg('adt', t, 1, [self.of_type(targs[0], depth, hint)])
            if path.endswith('vec::Vec') or path.endswith('bytes::Bytes') or path.endswith('VecDeque'):
                if path.endswith('bytes::Bytes'):
                    return self.bytes(hint)
                el = self.db.ty(self.crate, targs[0])
                if el and el['info'].get('k') == 'int' and el['info']['bits'] == 8:
                    return self.bytes(hint)
                n = 0 if depth > self.max_depth else ex.choose(self.max_len + 1, 'len')
                self.shape.append(f'{hint}.len={n}')
                return VecV([self.of_type(targs[0], depth + 1, f'{hint}{i}') for i in range(n)])
            if path.endswith('string::String'):
                return StrV('<sym>')
            if path.endswith('boxed::Box') or path.endswith('sync::Arc') or path.endswith('rc::Rc'):
                return BoxV(self.of_type(targs[0], depth + 1, hint))
            if info.get('adt_kind') == 'Enum':
                vs = info['variants']
                if not vs: raise Unmodelled(f'empty enum {disp}')
                vi = ex.choose(len(vs), 'variant') if len(vs) > 1 else 0
                self.shape.append(f'{hint}::{vs[vi]["name"]}')
                return Agg('adt', t, vi, [self.of_type(f['ty'], depth + 1, f['name']) for f in vs[vi]['fields']])
            if info.get('adt_kind') == 'Struct':
                fs = info['variants'][0]['fields']
                return Agg('adt', t, 0, [self.of_type(f['ty'], depth + 1, f['name']) for f in fs])
        raise Unmodelled(f'no symbolic generator for type {disp} ({k})')

    def bytes(self, hint):
        ln = self.ex.fresh(self.fresh_name(hint + '_len'), 64, False)
        self.ex.assume(ln.e < 2 ** 32)
        return BytesV(ln)


def install_bytes(ex):
    """models of the slice / Vec<u8> API on symbolic byte strings (BytesV)"""
    from .core import num_cmp, num_arith, Panic
    from .models import ok, err, deref_all

    def recv(a):
        v = deref_all(a[0]) if a else None
        return v if isinstance(v, BytesV) else None

    def index(e, n, a):
        v = recv(a)
        if v is None: return NotImplemented
        r = a[1]
        nm = (r.name or '') if isinstance(r, Agg) else ''
        if isinstance(r, Opaque) or nm.endswith('RangeFull'): return Ref(Cell(v))
        if isinstance(r, Num):
            if not e.branch(num_cmp('Lt', r, v.len)): raise Panic('index out of bounds')
            return Ref(Cell(e.fresh('byte', 8)))
        z = Num(0, 64)
        lo, hi = z, v.len
        if nm.endswith('RangeFrom'): lo = r.fields[0]
        elif nm.endswith('RangeTo'): hi = r.fields[0]
        elif nm.endswith('RangeInclusive') or nm.endswith('RangeToInclusive'): raise Unmodelled('inclusive range on byte string')
        elif nm.endswith('Range'): lo, hi = r.fields[0], r.fields[1]
        else: return NotImplemented
        if not e.branch(num_cmp('Le', lo, hi)): raise Panic('slice index starts after end')
        if not e.branch(num_cmp('Le', hi, v.len)): raise Panic('range end index out of range for slice')
        return Ref(Cell(BytesV(num_arith('Sub', hi, lo))))
    ex.model(r'<std::vec::Vec<u8> as std::ops::Index<.*>>::index|core::slice::index::<impl std::ops::Index<.*> for \[u8\]>::index|<\[u8\] as std::ops::Index<.*>>::index|<prost::bytes::Bytes as std::ops::Index<.*>>::index', index)

    def try_into_array(e, n, a):
        v = recv(a)
        if v is None: return NotImplemented
        m = re.search(r'\[u8; (\d+)\]', n)
        if not m: return NotImplemented
        if e.branch(num_cmp('Eq', v.len, Num(int(m.group(1)), 64))): return ok(Opaque(('array', v.ident)))
        return err(Opaque('TryFromSliceError'))
    ex.model(r'<&(mut )?\[u8\] as std::convert::TryInto<.*\[u8; \d+\]>>::try_into|<&?\[u8; \d+\] as std::convert::TryFrom<&(mut )?\[u8\]>>::try_from|(core|std)::array::<impl std::convert::TryFrom<&(mut )?\[u8\]> for &?\[u8; \d+\]>::try_from', try_into_array)

    def ident(e, n, a):
        return a[0] if recv(a) is not None else NotImplemented
    ex.model(r'<std::vec::Vec<u8> as std::convert::AsRef<\[u8\]>>::as_ref|<std::vec::Vec<u8> as std::ops::Deref>::deref|std::vec::Vec::<u8>::as_slice|<prost::bytes::Bytes as std::ops::Deref>::deref|<std::vec::Vec<u8> as std::borrow::Borrow<\[u8\]>>::borrow|<\[u8\] as std::convert::AsRef<\[u8\]>>::as_ref', ident)

    def owned(e, n, a):
        v = recv(a)
        return v if v is not None else NotImplemented
    ex.model(r'<\[u8\] as std::borrow::ToOwned>::to_owned|core::slice::<impl \[u8\]>::to_vec|std::slice::<impl \[u8\]>::to_vec|<std::vec::Vec<u8> as std::convert::From<&\[u8\]>>::from|<std::vec::Vec<u8> as std::clone::Clone>::clone|<prost::bytes::Bytes as std::clone::Clone>::clone|<&\[u8\] as std::convert::Into<std::vec::Vec<u8>>>::into|<std::vec::Vec<u8> as std::convert::From<prost::bytes::Bytes>>::from', owned)

    def blen(e, n, a):
        v = recv(a)
        return v.len if v is not None else NotImplemented
    ex.model(r'std::vec::Vec::<u8>::len|core::slice::<impl \[u8\]>::len|prost::bytes::Bytes::len', blen)

    def bempty(e, n, a):
        v = recv(a)
        return num_cmp('Eq', v.len, Num(0, 64)) if v is not None else NotImplemented
    ex.model(r'std::vec::Vec::<u8>::is_empty|core::slice::<impl \[u8\]>::is_empty|prost::bytes::Bytes::is_empty', bempty)
