"""Building and inspecting values of the program's own types by *field name* (robust against field reordering)."""
from .core import Agg, Unmodelled, Num


class Mk:
    def __init__(self, db, crate):
        self.db = db; self.crate = crate

    def ty(self, path, display=None):
        try:
            return self.db.adt(self.crate, path, display)
        except KeyError as e:
            raise Unmodelled(f'type lookup failed: {e}')

    def adt(self, path, variant=None, display=None, **fields):
        t = self.ty(path, display)
        vs = t['info']['variants']
        vi = 0
        if variant is not None:
            names = [v['name'] for v in vs]
            if variant not in names:
                raise Unmodelled(f'{path} has no variant {variant} (has {names})')
            vi = names.index(variant)
        fdefs = vs[vi]['fields']
        names = [f['name'] for f in fdefs]
        given = {k.lstrip('_') if k.lstrip('_').isdigit() else k: v for k, v in fields.items()}
        if set(given) != set(names):
            raise Unmodelled(f'fields of {path}::{vs[vi]["name"]} are {names}, harness provides {sorted(given)}: environment model out of date')
        return Agg('adt', t, vi, [given[n] for n in names])

    def tuple_struct(self, path, *vals, display=None):
        return self.adt(path, None, display, **{f'_{i}': v for i, v in enumerate(vals)})


def fld(v, name):
    """field of an Agg by name"""
    t = v.ty
    if not isinstance(t, dict) or t['info'].get('k') != 'adt':
        raise Unmodelled(f'field {name} of untyped aggregate {v!r}')
    fs = t['info']['variants'][v.variant]['fields']
    for i, f in enumerate(fs):
        if f['name'] == str(name):
            return v.fields[i]
    raise Unmodelled(f'{t["display"]} has no field {name} (has {[f["name"] for f in fs]})')


def variant_name(v):
    t = v.ty
    if isinstance(t, dict) and t['info'].get('k') == 'adt':
        return t['info']['variants'][v.variant]['name']
    return str(v.variant)
