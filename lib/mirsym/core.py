"""mirsym core: path-forking symbolic execution of rustc MIR (mirdump JSON) with z3.

Values
  Num(e, bits, signed)   e: python int (concrete) | z3 Int expr (range-constrained) | z3 BitVec expr
  bool                   python bool | z3 BoolRef
  Agg                    struct / tuple / enum variant / closure env / coroutine state
  Ref(cell, path)        reference or raw pointer into a Cell
  native containers      see models.py
  Opaque(tag)            uninterpreted environment value
Exploration is depth-first by decision replay: a path is re-executed from the harness start with the
recorded branch decisions; new branch points are decided by an (incremental) feasibility query.
"""
import os, re, time, itertools
import z3

WORD = 64


class Panic(Exception):
    def __init__(self, msg, where=None):
        super().__init__(msg); self.msg = msg; self.where = where


class Unmodelled(Exception):
    pass


class Infeasible(Exception):
    pass


class BoundExceeded(Unmodelled):
    pass


class Cell:
    __slots__ = ('v',)

    def __init__(self, v=None):
        self.v = v


class Uninit:
    def __repr__(self):
        return 'Uninit'


UNINIT = Uninit()


def is_sym(e):
    return isinstance(e, z3.ExprRef)


class Num:
    __slots__ = ('e', 'bits', 'signed')

    def __init__(self, e, bits=64, signed=False):
        self.e = e; self.bits = bits; self.signed = signed

    def __repr__(self):
        t = ('i' if self.signed else 'u') + str(self.bits)
        return f'{self.e}{t}' if not is_sym(self.e) else f'<{z3.simplify(self.e)}:{t}>'

    @property
    def concrete(self):
        return not is_sym(self.e)

    def lo(self):
        return -(1 << (self.bits - 1)) if self.signed else 0

    def hi(self):
        return (1 << (self.bits - 1)) - 1 if self.signed else (1 << self.bits) - 1


class NumB(Num):
    """a Num known (by construction: zero-extension of a narrower unsigned value) to lie below `ubound`"""
    __slots__ = ('ubound',)

    def __init__(self, e, bits=64, signed=False, ubound=None):
        Num.__init__(self, e, bits, signed); self.ubound = ubound


def wrap_int(v, bits, signed):
    v &= (1 << bits) - 1
    if signed and v >> (bits - 1):
        v -= 1 << bits
    return v


def u64(v):
    return Num(v, 64, False)


class Agg:
    """kind: 'adt' | 'tuple' | 'closure' | 'coroutine'. For adts `ty` is the type-table entry (dict) or a name."""
    __slots__ = ('kind', 'ty', 'variant', 'fields', 'state', 'vfields', 'cur_variant', 'body_key')

    def __init__(self, kind, ty, variant, fields):
        self.kind = kind; self.ty = ty; self.variant = variant; self.fields = list(fields)
        self.state = 0; self.vfields = None; self.cur_variant = None; self.body_key = None

    @property
    def name(self):
        t = self.ty
        if isinstance(t, dict):
            return t.get('info', {}).get('name') or t.get('display')
        return t

    def __repr__(self):
        n = self.name
        n = n.split('::')[-1] if isinstance(n, str) else n
        if self.kind == 'coroutine':
            return f'Coroutine<{n}>@{self.state}'
        if self.kind == 'tuple':
            return '(' + ', '.join(map(repr, self.fields)) + ')'
        vn = ''
        t = self.ty
        if isinstance(t, dict) and t.get('info', {}).get('k') == 'adt' and len(t['info']['variants']) > 1:
            vn = '::' + t['info']['variants'][self.variant]['name']
        return f'{n}{vn}{self.fields if self.fields else ""}'


class Ref:
    __slots__ = ('cell', 'path', 'meta')

    def __init__(self, cell, path=(), meta=None):
        self.cell = cell; self.path = tuple(path); self.meta = meta

    def get(self):
        v = self.cell.v
        for p in self.path:
            v = proj_get(v, p)
        return v

    def set(self, nv):
        self.cell.v = proj_set(self.cell.v, self.path, nv)

    def __repr__(self):
        try:
            return f'&{self.get()!r}'
        except Exception:
            return '&?'


class Opaque:
    """Uninterpreted environment value. `tag` is hashable (or a z3 expr for symbolic identities)."""
    __slots__ = ('tag',)

    def __init__(self, tag):
        self.tag = tag

    def __repr__(self):
        return f'Opaque({self.tag})'


class FnVal:
    __slots__ = ('name', 'key', 'info', 'crate')

    def __init__(self, name, key, info, crate=None):
        self.name = name; self.key = key; self.info = info; self.crate = crate

    def __repr__(self):
        return f'fn {self.name}'


UNIT = Agg('tuple', '()', 0, [])


def proj_get(v, p):
    k, a = p
    if k == 'field':
        if isinstance(v, Agg):
            if v.kind == 'coroutine' and v.cur_variant is not None:
                return v.vfields.get((v.cur_variant, a), UNINIT)
            if a >= len(v.fields):
                raise Unmodelled(f'field {a} out of range in {v!r}')
            return v.fields[a]
        if hasattr(v, 'proj_field'):
            return v.proj_field(a)
        raise Unmodelled(f'field {a} of {type(v).__name__} {v!r}'[:200])
    if k == 'downcast':
        if isinstance(v, Agg) and v.kind == 'coroutine':
            w = Agg('coroutine', v.ty, v.variant, v.fields)
            w.fields = v.fields; w.vfields = v.vfields; w.cur_variant = a; w.state = v.state; w.body_key = v.body_key
            return w
        if isinstance(v, Agg):
            if v.variant != a:
                raise Unmodelled(f'downcast {a} of {v!r}')
            return v
        if hasattr(v, 'proj_downcast'):
            return v.proj_downcast(a)
        raise Unmodelled(f'downcast of {type(v).__name__}')
    if k == 'deref':
        if isinstance(v, Ref):
            return v.get()
        if hasattr(v, 'deref'):
            return v.deref()
        raise Unmodelled(f'deref of {type(v).__name__} {v!r}'[:200])
    if k == 'index':
        if hasattr(v, 'items'):
            return v.items[a]
        raise Unmodelled(f'index of {type(v).__name__}')
    raise Unmodelled(str(p))


def proj_set(v, path, nv):
    if not path:
        return nv
    (k, a), rest = path[0], path[1:]
    if k == 'deref':
        if isinstance(v, Ref):
            v.set(proj_set(v.get(), rest, nv) if rest else nv)
            return v
        if hasattr(v, 'deref_set'):
            v.deref_set(proj_set(v.deref(), rest, nv) if rest else nv)
            return v
        raise Unmodelled(f'assignment through deref of {type(v).__name__}')
    if k == 'field':
        if isinstance(v, Agg) and v.kind == 'coroutine' and v.cur_variant is not None:
            key = (v.cur_variant, a)
            v.vfields[key] = proj_set(v.vfields.get(key, UNINIT), rest, nv)
            return v
        if isinstance(v, Uninit):
            # partially initialised aggregate (MIR assigns fields one by one after a move)
            v = Agg('tuple', 'partial', 0, [])
        if isinstance(v, Agg):
            while len(v.fields) <= a:
                v.fields.append(UNINIT)
            v.fields[a] = proj_set(v.fields[a], rest, nv)
            return v
        if hasattr(v, 'proj_field_set'):
            v.proj_field_set(a, proj_set(v.proj_field(a), rest, nv) if rest else nv)
            return v
        raise Unmodelled(f'field assignment into {type(v).__name__}')
    if k == 'downcast':
        if isinstance(v, Agg) and v.kind == 'coroutine':
            w = proj_get(v, (k, a))
            proj_set(w, rest, nv)
            return v
        if isinstance(v, Uninit):
            v = Agg('adt', 'partial', a, [])
        return proj_set(v, rest, nv)
    if k == 'index':
        v.items[a] = proj_set(v.items[a], rest, nv)
        return v
    raise Unmodelled(str(path))


# ---------------------------------------------------------------------------------------------- numeric ops
def _sort_of(e):
    if not is_sym(e):
        return None
    return 'bv' if z3.is_bv(e) else 'int'


def _coerce(a, b):
    """bring the .e of two Nums to a common representation; returns (x, y, mode)"""
    x, y = a.e, b.e
    sx, sy = _sort_of(x), _sort_of(y)
    if sx is None and sy is None:
        return x, y, None
    mode = sx or sy
    if sx and sy and sx != sy:
        # mixed encodings: lift the bit-vector side into integers
        if sx == 'bv':
            x = z3.BV2Int(x, a.signed)
        else:
            y = z3.BV2Int(y, b.signed)
        mode = 'int'
    if mode == 'bv':
        if sx is None:
            x = z3.BitVecVal(x, y.size())
        if sy is None:
            y = z3.BitVecVal(y, x.size())
        if x.size() != y.size():
            # shifts may have a differently sized rhs
            if x.size() > y.size():
                y = (z3.SignExt if b.signed else z3.ZeroExt)(x.size() - y.size(), y)
            else:
                y = z3.Extract(x.size() - 1, 0, y)
    else:
        if sx is None:
            x = z3.IntVal(x)
        if sy is None:
            y = z3.IntVal(y)
    return x, y, mode


def z3wrap(e, bits, signed):
    """reduce an Int-sorted expression into the range of the machine type"""
    m = 1 << bits
    if signed:
        h = 1 << (bits - 1)
        return ((e + h) % m) - h
    return e % m


def in_range(e, bits, signed):
    if signed:
        return z3.And(e >= -(1 << (bits - 1)), e <= (1 << (bits - 1)) - 1)
    return z3.And(e >= 0, e <= (1 << bits) - 1)


def num_cmp(op, a, b):
    if is_sym(a.e) and is_sym(b.e) and a.e.eq(b.e):
        return op in ('Eq', 'Le', 'Ge')
    x, y, mode = _coerce(a, b)
    if mode is None:
        return {'Eq': x == y, 'Ne': x != y, 'Lt': x < y, 'Le': x <= y, 'Gt': x > y, 'Ge': x >= y}[op]
    if mode == 'int' or a.signed:
        return {'Eq': lambda: x == y, 'Ne': lambda: x != y, 'Lt': lambda: x < y, 'Le': lambda: x <= y, 'Gt': lambda: x > y, 'Ge': lambda: x >= y}[op]()
    return {'Eq': lambda: x == y, 'Ne': lambda: x != y, 'Lt': lambda: z3.ULT(x, y), 'Le': lambda: z3.ULE(x, y), 'Gt': lambda: z3.UGT(x, y), 'Ge': lambda: z3.UGE(x, y)}[op]()


def _pow2_mask(c):
    """k if c == 2^k - 1 else None"""
    if isinstance(c, int) and c >= 0 and (c & (c + 1)) == 0:
        return c.bit_length()
    return None


DIV_AXIOMS = []


def num_arith(op, a, b, wrapping=True):
    """MIR BinaryOp on integers (wrapping semantics; overflow is asserted separately by MIR)."""
    bits, signed = a.bits, a.signed
    x, y, mode = _coerce(a, b)
    if mode is None:
        if op == 'Add': r = x + y
        elif op == 'Sub': r = x - y
        elif op == 'Mul': r = x * y
        elif op == 'Div':
            if y == 0: raise Panic('attempt to divide by zero')
            r = abs(x) // abs(y) * (1 if (x >= 0) == (y >= 0) else -1)
        elif op == 'Rem':
            if y == 0: raise Panic('attempt to calculate the remainder with a divisor of zero')
            r = abs(x) % abs(y) * (1 if x >= 0 else -1)
        elif op == 'BitAnd': r = x & y
        elif op == 'BitOr': r = x | y
        elif op == 'BitXor': r = x ^ y
        elif op in ('Shl', 'ShlUnchecked'): r = x << (y % bits)
        elif op in ('Shr', 'ShrUnchecked'): r = x >> (y % bits)
        else: raise Unmodelled(f'binop {op}')
        return Num(wrap_int(r, bits, signed), bits, signed)
    if mode == 'bv':
        if op == 'Add': r = x + y
        elif op == 'Sub': r = x - y
        elif op == 'Mul': r = x * y
        elif op == 'Div': r = (x / y) if signed else z3.UDiv(x, y)
        elif op == 'Rem': r = z3.SRem(x, y) if signed else z3.URem(x, y)
        elif op == 'BitAnd': r = x & y
        elif op == 'BitOr': r = x | y
        elif op == 'BitXor': r = x ^ y
        elif op in ('Shl', 'ShlUnchecked'): r = x << y
        elif op in ('Shr', 'ShrUnchecked'): r = (x >> y) if signed else z3.LShR(x, y)
        else: raise Unmodelled(f'binop {op}')
        return Num(r, bits, signed)
    # integer encoding
    if op == 'Add': r = x + y
    elif op == 'Sub': r = x - y
    elif op == 'Mul':
        r = x * y
    elif op == 'Div' and not b.concrete and not a.concrete:
        f = z3.Function(f'{"s" if signed else "u"}div{bits}', z3.IntSort(), z3.IntSort(), z3.IntSort())
        r = f(x, y)
        if signed:
            DIV_AXIOMS.append(z3.And(in_range(r, bits, signed), z3.Implies(z3.And(x >= 0, y >= 1), z3.And(r >= 0, r <= x, z3.Implies(y == 1, r == x), z3.Implies(y > x, r == 0)))))
        else:
            DIV_AXIOMS.append(z3.And(r >= 0, r <= x, z3.Implies(y == 1, r == x), z3.Implies(y > x, r == 0), z3.Implies(z3.And(y >= 1, y <= x), r >= 1)))
        return Num(r, bits, signed)
    elif op == 'Rem' and not signed and not b.concrete and not a.concrete:
        f = z3.Function(f'urem{bits}', z3.IntSort(), z3.IntSort(), z3.IntSort())
        r = f(x, y)
        DIV_AXIOMS.append(z3.And(r >= 0, r < y, r <= x, z3.Implies(x < y, r == x)))
        return Num(r, bits, signed)
    elif op == 'Div':
        if signed:
            r = z3.If(z3.And(x >= 0, y > 0), x / y, z3.If(z3.And(x < 0, y > 0), -((-x) / y), z3.If(z3.And(x >= 0, y < 0), -(x / (-y)), (-x) / (-y))))
        else:
            r = x / y
        return Num(r if not signed else z3wrap(r, bits, signed), bits, signed)
    elif op == 'Rem':
        if signed:
            ax = z3.If(x >= 0, x, -x); ay = z3.If(y >= 0, y, -y)
            r = z3.If(x >= 0, ax % ay, -(ax % ay))
        else:
            r = x % y
        return Num(r, bits, signed)
    elif op in ('BitXor', 'BitOr') or (op == 'BitAnd' and not (a.concrete or b.concrete)):
        # bitwise operations on symbolic machine integers: exact, through the bit-vector view of both operands
        # (int2bv / bv2int); unsigned only, used for narrow values (byte-wise comparisons)
        if signed: raise Unmodelled(f'{op} on signed symbolic integers in integer encoding')
        if a.concrete and b.concrete:
            v = {'BitXor': a.e ^ b.e, 'BitOr': a.e | b.e, 'BitAnd': a.e & b.e}[op]
            return Num(v & ((1 << bits) - 1), bits, signed)
        if op == 'BitOr':
            # (t << k) | w with w < 2^k is t * 2^k + w: recognised when one operand is a zero-extended narrower value (NumB) and the low
            # bits of the other simplify to 0 — keeps word-assembling code in linear arithmetic instead of int2bv / bv2int
            for lo_, hi_, he in ((a, b, y), (b, a, x)):
                ub = getattr(hi_, 'ubound', None)
                if ub is not None and ub & (ub - 1) == 0 and not isinstance(lo_.e, int):
                    rest = z3.simplify(lo_.e % ub)
                    if z3.is_int_value(rest) and rest.as_long() == 0:
                        return Num(lo_.e + (he if not isinstance(he, int) else z3.IntVal(he)), bits, signed)
        xb = z3.Int2BV(x if not isinstance(x, int) else z3.IntVal(x), bits); yb = z3.Int2BV(y if not isinstance(y, int) else z3.IntVal(y), bits)
        rb = xb ^ yb if op == 'BitXor' else (xb | yb if op == 'BitOr' else xb & yb)
        return Num(z3.BV2Int(rb, False), bits, signed)
    elif op == 'BitAnd':
        if not (a.concrete or b.concrete): raise Unmodelled('bit-and of symbolic integers in integer encoding')
        mask = (b.e if b.concrete else a.e) & ((1 << bits) - 1)
        other = x if b.concrete else y
        if signed: raise Unmodelled('bit-and on a signed symbolic integer in integer encoding')
        # a constant mask is a union of contiguous bit runs: x & run = ((x div 2^lo) mod 2^len) * 2^lo
        terms = []; i = 0
        while i < bits:
            if (mask >> i) & 1:
                lo = i
                while i < bits and (mask >> i) & 1: i += 1
                ln = i - lo
                t = (other / (1 << lo)) if lo else other
                t = t % (1 << ln)
                terms.append(t * (1 << lo) if lo else t)
            else:
                i += 1
        if not terms: return Num(0, bits, signed)
        r = terms[0]
        for t in terms[1:]: r = r + t
        return Num(r, bits, signed)
    elif op in ('Shl', 'ShlUnchecked'):
        if not b.concrete: raise Unmodelled('symbolic shift in integer encoding')
        r = x * (1 << (b.e % bits))
    elif op in ('Shr', 'ShrUnchecked'):
        if not b.concrete: raise Unmodelled('symbolic shift in integer encoding')
        return Num(x / (1 << (b.e % bits)), bits, signed)
    else:
        raise Unmodelled(f'binop {op} in integer encoding')
    return Num(z3wrap(r, bits, signed) if wrapping else r, bits, signed)


def num_checked(op, a, b):
    """MIR CheckedBinaryOp: (wrapped result, overflow flag)"""
    bits, signed = a.bits, a.signed
    x, y, mode = _coerce(a, b)
    if mode is None:
        r = {'Add': x + y, 'Sub': x - y, 'Mul': x * y}[op]
        w = wrap_int(r, bits, signed)
        return Num(w, bits, signed), (w != r)
    if mode == 'bv':
        ext = z3.SignExt if signed else z3.ZeroExt
        xe, ye = ext(bits, x), ext(bits, y)
        full = {'Add': xe + ye, 'Sub': xe - ye, 'Mul': xe * ye}[op]
        res = z3.Extract(bits - 1, 0, full)
        ovf = ext(bits, res) != full
        return Num(res, bits, signed), ovf
    r = {'Add': lambda: x + y, 'Sub': lambda: x - y, 'Mul': lambda: x * y}[op]()
    num_checked.raw = r
    ovf = z3.Not(in_range(r, bits, signed))
    # the wrapped value is only consumed on the non-overflowing continuation in checked builds
    if op == 'Mul':
        res = z3.If(ovf, z3wrap(r, bits, signed), r)
    elif signed:
        m = 1 << bits
        res = z3.If(r > (1 << (bits - 1)) - 1, r - m, z3.If(r < -(1 << (bits - 1)), r + m, r))
    else:
        m = 1 << bits
        res = z3.If(r >= m, r - m, z3.If(r < 0, r + m, r))
    return Num(res, bits, signed), ovf


def num_cast(v, bits, signed):
    if v.concrete:
        return Num(wrap_int(v.e, bits, signed), bits, signed)
    if z3.is_bv(v.e):
        s = v.e.size()
        if s == bits: return Num(v.e, bits, signed)
        if s > bits: return Num(z3.Extract(bits - 1, 0, v.e), bits, signed)
        return Num((z3.SignExt if v.signed else z3.ZeroExt)(bits - s, v.e), bits, signed)
    # integer encoding: identity if the source range fits
    if Num(0, bits, signed).lo() <= v.lo() and v.hi() <= Num(0, bits, signed).hi():
        if not v.signed and not signed and v.bits < bits:
            return NumB(v.e, bits, signed, getattr(v, 'ubound', None) or (1 << v.bits))     # zero-extension keeps the narrower bound
        return Num(v.e, bits, signed)
    return Num(z3wrap(v.e, bits, signed), bits, signed)


def b_not(c):
    return (not c) if isinstance(c, bool) else z3.Not(c)


def b_and(*cs):
    cs = [c for c in cs if c is not True]
    if any(c is False for c in cs): return False
    if not cs: return True
    return cs[0] if len(cs) == 1 else z3.And(*cs)


def b_or(*cs):
    cs = [c for c in cs if c is not False]
    if any(c is True for c in cs): return True
    if not cs: return False
    return cs[0] if len(cs) == 1 else z3.Or(*cs)


def to_z3_bool(c):
    return z3.BoolVal(c) if isinstance(c, bool) else c


def num_eq(a, b):
    return num_cmp('Eq', a, b)


# ---------------------------------------------------------------------------------------------- executor
class Stats:
    def __init__(self):
        self.paths = 0; self.infeasible = 0; self.queries = 0; self.calls = 0; self.steps = 0; self.solver_s = 0.0
        self.functions = {}     # name -> times entered
        self.models = {}        # model name -> times used
        self.max_unroll = 0


class Exec:
    MAX_STEPS = 200000
    MAX_DEPTH = 120

    def __init__(self, db, models=None, intmode=True, loop_bound=64, eager=True, timeout_ms=60000):
        from . import models as M
        self.db = db
        self.user_models = []       # [(compiled regex, fn)] consulted first, in order
        self._um_cache = {}
        self.path_models = {}
        self.std = M
        self.intmode = intmode
        self.loop_bound = loop_bound
        self.eager = eager
        self.timeout_ms = timeout_ms
        self.stats = Stats()
        self.drop_types = []        # regexes of types whose drop glue is executed
        self.trace_calls = False
        self.reset_path([])
        self._fresh = itertools.count()
        if models:
            for pat, fn in models:
                self.model(pat, fn)

    # -- path state
    def reset_path(self, decisions):
        self.decisions = list(decisions); self.dpos = 0
        self.pc = []; self.pending = []
        self.solver = z3.Solver(); self.solver.set('timeout', self.timeout_ms)
        self.depth = 0; self.steps = 0
        self.callstack = []
        self.log = []           # harness-visible effect log
        self.syms = {}

    def model_path(self, path, fn):
        """model for the function with exactly this definition path (generic arguments stripped)"""
        self.path_models[path] = fn

    def model(self, pattern, fn):
        self.user_models.append((re.compile(pattern), fn))
        self._um_cache = {}

    def fresh(self, prefix, bits=64, signed=False, sort=None):
        """fresh symbolic machine integer, deterministic name per path position"""
        name = f'{prefix}'
        if name in self.syms:
            n = 1
            while f'{prefix}#{n}' in self.syms: n += 1
            name = f'{prefix}#{n}'
        if (self.intmode if sort is None else sort == 'int'):
            e = z3.Int(name)
            self.assume(in_range(e, bits, signed))
        else:
            e = z3.BitVec(name, bits)
        v = Num(e, bits, signed)
        self.syms[name] = v
        return v

    def fresh_bool(self, name):
        return z3.Bool(name)

    def check(self, *extra):
        self.stats.queries += 1
        t = time.time()
        r = self.solver.check(*extra)
        self.stats.solver_s += time.time() - t
        if r == z3.unknown:
            raise Unmodelled('solver returned unknown: ' + self.solver.reason_unknown())
        return r == z3.sat

    def add_pc(self, c):
        if c is True: return
        if c is False: raise Infeasible()
        self.pc.append(c); self.solver.add(c)

    def assume(self, c):
        self.add_pc(c)

    def branch(self, cond):
        """decide a branch condition on the current path (forks)"""
        if isinstance(cond, bool):
            return cond
        cond = z3.simplify(cond)
        if z3.is_true(cond): return True
        if z3.is_false(cond): return False
        if self.dpos < len(self.decisions):
            d = self.decisions[self.dpos]; self.dpos += 1
            self.add_pc(cond if d else z3.Not(cond))
            return d
        if self.eager:
            t = self.check(cond); f = self.check(z3.Not(cond))
        else:
            t = f = True
        if t and f:
            self.pending.append(self.decisions[:self.dpos] + [False]); d = True
        elif t: d = True
        elif f: d = False
        else: raise Infeasible()
        self.decisions.append(d); self.dpos += 1
        self.add_pc(cond if d else z3.Not(cond))
        return d

    def choose(self, n, label='choice'):
        """harness-level nondeterministic choice among n alternatives (no constraint attached)"""
        for i in range(n - 1):
            b = z3.Bool(f'{label}!{next(self._fresh)}')
            if self.dpos < len(self.decisions):
                d = self.decisions[self.dpos]; self.dpos += 1
            else:
                self.pending.append(self.decisions[:self.dpos] + [False]); d = True
                self.decisions.append(d); self.dpos += 1
            if d: return i
        return n - 1

    def concretize_index(self, idx, n, what='index'):
        """fork over the concrete values 0..n-1 of a symbolic index already known to be < n"""
        if idx.concrete:
            return idx.e
        for k in range(n):
            if self.branch(num_cmp('Eq', idx, Num(k, idx.bits, idx.signed))):
                return k
        raise Infeasible()

    # -- types
    def ty(self, crate, tid):
        return self.db.ty(crate, tid)

    # -- calls
    def call_key(self, key, args, name=None):
        rec = self.db.body(key)
        if rec is None:
            raise Unmodelled(f'no body for {name or key}')
        return self.run(rec, args)

    def call(self, fv, args):
        """call a FnVal with evaluated args: user model > std model > real body"""
        self.stats.calls += 1
        name = fv.name
        if self.path_models:
            pm = self.path_models.get(self.std.strip_all_generics(name))
            if pm is None and isinstance(fv.info, dict):
                cn = canon((fv.info.get('resolved') or {}).get('cname'))
                if cn: pm = self.path_models.get(self.std.strip_all_generics(cn))
            if pm is not None:
                r = pm(self, name, args)
                if r is not NotImplemented:
                    self.stats.models['path:' + self.std.strip_generics(name)] = 1
                    return r
        ums = self._um_cache.get(name)
        if ums is None:
            cname = canon((fv.info.get('resolved') or {}).get('cname')) if isinstance(fv.info, dict) else None
            ums = [(rx, fn) for rx, fn in self.user_models if rx.fullmatch(name) or (cname and rx.fullmatch(cname))]
            self._um_cache[name] = ums
        for rx, fn in ums:
            r = fn(self, name, args)
            if r is not NotImplemented:
                self.stats.models[rx.pattern] = self.stats.models.get(rx.pattern, 0) + 1
                return r
        has_body = fv.key is not None and fv.key in self.db.by_key
        workspace = name.startswith('zksync_') or name.startswith('<zksync_')
        if not (workspace and has_body):
            m = self.std.lookup(self, name, args)
            if m is not None:
                r = m(self, name, args)
                if r is not NotImplemented:
                    mk = getattr(m, '__name__', 'model')
                    self.stats.models[mk] = self.stats.models.get(mk, 0) + 1
                    return r
        if has_body:
            return self.call_key(fv.key, args, name)
        ctor = fv.info.get('ctor') if isinstance(fv.info, dict) else None
        if ctor:
            return Agg('adt', self.ty(fv.crate, ctor['adt_ty']), ctor['variant'], args)
        if re.fullmatch(r'<.* as std::ops::(Fn|FnMut|FnOnce)<.*>>::call(_once|_mut)?', name) and len(args) == 2:
            callee = args[0]
            while isinstance(callee, Ref): callee = callee.get()
            inner = list(args[1].fields) if isinstance(args[1], Agg) and args[1].kind == 'tuple' else [args[1]]
            if isinstance(callee, FnVal): return self.call(callee, inner)
            if isinstance(callee, Agg) and callee.kind == 'closure': return self.call_closure(args[0], inner)
        raise Unmodelled(f'call {name}')

    def call_by_name(self, pattern, args):
        key = self.db.find_one(pattern)
        return self.call_key(key, args)

    def call_closure(self, clo, args):
        """invoke a closure value (Agg 'closure', FnVal, or Ref to one) with a list of arguments"""
        c = clo
        while isinstance(c, Ref):
            c = c.get()
        if isinstance(c, FnVal):
            return self.call(c, list(args))
        if isinstance(c, Agg) and c.kind == 'closure':
            rec = self.db.body(c.body_key) if c.body_key else None
            if rec is None:
                raise Unmodelled(f'no body for closure {c.name}')
            # closure bodies take (self | &self | &mut self, args...) with the args untupled
            self_ty = self.ty(rec['crate'], rec['body']['locals'][1]['ty'])
            by_ref = self_ty and self_ty['info'].get('k') == 'ref'
            if by_ref:
                recv = clo if isinstance(clo, Ref) else Ref(Cell(c))
                # strip extra reference layers (&&closure)
                while isinstance(recv.get(), Ref):
                    recv = recv.get()
            else:
                recv = c
            return self.run(rec, [recv] + list(args))
        if hasattr(c, 'py_call'):
            return c.py_call(self, list(args))
        raise Unmodelled(f'call of non-closure {c!r}'[:200])

    # -- interpreter
    def run(self, rec, args):
        name = rec.get('name', '?')
        self.stats.functions[name] = self.stats.functions.get(name, 0) + 1
        self.depth += 1
        if self.depth > self.MAX_DEPTH:
            raise Unmodelled(f'call depth exceeded in {name}')
        self.callstack.append(name)
        try:
            return Frame(self, rec, args).run()
        finally:
            self.callstack.pop()
            self.depth -= 1


class Frame:
    def __init__(self, ex, rec, args):
        self.ex = ex; self.rec = rec; self.crate = rec['crate']; self.body = rec['body']; self.name = rec.get('name', '?')
        body = self.body
        self.loc = [Cell(UNINIT) for _ in body['locals']]
        if len(args) != body['arg_count']:
            # "rust-call" ABI: closures called through Fn* traits get a tuple of arguments
            if len(args) == 2 and isinstance(args[1], Agg) and args[1].kind == 'tuple' and 1 + len(args[1].fields) == body['arg_count']:
                args = [args[0]] + list(args[1].fields)
            else:
                raise Unmodelled(f'arity mismatch calling {self.name}: {len(args)} vs {body["arg_count"]}')
        for i, a in enumerate(args):
            self.loc[i + 1].v = a
        self.consts = rec.get('consts') or {}
        self.visits = {}

    # places
    def place(self, p):
        r = Ref(self.loc[p['local']])
        for e in p['projection']:
            if e == 'Deref':
                v = r.get()
                if isinstance(v, Ref):
                    r = v
                elif hasattr(v, 'deref_ref'):
                    r = v.deref_ref()
                else:
                    r = Ref(r.cell, r.path + (('deref', None),))
            elif 'Field' in e:
                r = Ref(r.cell, r.path + (('field', e['Field'][0]),))
            elif 'Downcast' in e:
                r = Ref(r.cell, r.path + (('downcast', e['Downcast']),))
            elif 'Index' in e:
                idx = self.loc[e['Index']].v
                cont = r.get()
                n = len(cont.items)
                if not self.ex.branch(num_cmp('Lt', idx, Num(n, idx.bits, idx.signed))):
                    raise Panic('index out of bounds', self.where())
                k = self.ex.concretize_index(idx, n)
                r = Ref(r.cell, r.path + (('index', k),))
            elif 'ConstantIndex' in e:
                ci = e['ConstantIndex']
                cont = r.get()
                k = (len(cont.items) - ci['offset']) if ci['from_end'] else ci['offset']
                r = Ref(r.cell, r.path + (('index', k),))
            elif 'OpaqueCast' in e or 'Subtype' in e:
                pass
            else:
                raise Unmodelled(f'projection {e}')
        return r

    def where(self):
        return f'{self.name} bb{self.bb}'

    def const(self, c):
        cc = c['const_']
        k = cc['kind']
        t = self.ex.ty(self.crate, cc['ty'])
        info = t['info'] if t else {}
        dec = self.consts.get(str(cc.get('id')))
        if dec is not None:
            return self.decode_const(dec, t)
        if k == 'ZeroSized':
            kk = info.get('k')
            if kk == 'fndef':
                res = info.get('resolved') or {}
                return FnVal(res.get('name') or info['name'], res.get('key'), info, self.crate)
            if kk == 'closure':
                a = Agg('closure', t, 0, [])
                a.body_key = (info.get('resolved') or {}).get('key')
                return a
            if kk == 'adt':
                # zero-sized enum value: the (unique) inhabited variant
                vi = 0
                vs = info.get('variants') or []
                if len(vs) > 1:
                    for i, v in enumerate(vs):
                        ftys = [self.ex.ty(self.crate, f['ty']) for f in v['fields']]
                        if not any(ft and ('Infallible' in ft['display'] or ft['info'].get('k') == 'never') for ft in ftys):
                            vi = i; break
                fields = []
                for f in (vs[vi]['fields'] if vs else []):
                    ft = self.ex.ty(self.crate, f['ty'])
                    fields.append(Agg('adt', ft, 0, []) if ft and ft['info'].get('k') == 'adt' else UNIT)
                return Agg('adt', t, vi, fields)
            if kk == 'tuple':
                return UNIT
            return Opaque(('zst', t['display'] if t else '?'))
        if isinstance(k, dict) and 'Allocated' in k:
            by = k['Allocated']['bytes']
            if info.get('k') == 'int':
                v = int.from_bytes(bytes(b or 0 for b in by), 'little', signed=info['signed'])
                return Num(v, info['bits'], info['signed'])
            if info.get('k') == 'bool':
                return by[0] != 0
            if info.get('k') == 'char':
                return Num(int.from_bytes(bytes(b or 0 for b in by), 'little'), 32, False)
            return Opaque(('const', t['display'] if t else '?', tuple(by[:16])))
        if isinstance(k, dict) and 'Unevaluated' in k:
            return Opaque(('unevaluated', t['display'] if t else '?'))
        raise Unmodelled(f'const {k}')

    def decode_const(self, d, t):
        ex = self.ex
        info = t['info'] if t else {}
        if 'int' in d:
            if info.get('k') == 'int':
                return Num(int(d['int']), info['bits'], info['signed'])
            return Num(int(d['int']), 32, False)
        if 'bool' in d: return d['bool']
        if 'str' in d:
            return ex.std.StrV(d['str'])
        if 'zst' in d: return UNIT
        if 'promoted' in d:
            rec = ex.db.body(d['promoted'])
            if rec is None: raise Unmodelled(f'promoted body {d["promoted"]} missing')
            return ex.run(rec, [])
        if 'ref' in d:
            inner_t = ex.ty(self.crate, info['to']) if info.get('k') in ('ref', 'ptr') else None
            return Ref(Cell(self.decode_const(d['ref'], inner_t)))
        if 'slice' in d or 'array' in d:
            el_t = ex.ty(self.crate, info['elem']) if info.get('k') in ('slice', 'array') else None
            return ex.std.VecV([self.decode_const(x, el_t) for x in d.get('slice', d.get('array'))])
        if 'tuple' in d:
            ets = [ex.ty(self.crate, e) for e in info.get('elems', [])] if info.get('k') == 'tuple' else [None] * len(d['tuple'])
            return Agg('tuple', 'tuple', 0, [self.decode_const(x, et) for x, et in zip(d['tuple'], ets)])
        if 'adt' in d:
            vi = d['variant']
            fts = [None] * len(d['fields'])
            if info.get('k') == 'adt':
                fts = [ex.ty(self.crate, f['ty']) for f in info['variants'][vi]['fields']]
            return Agg('adt', t, vi, [self.decode_const(x, ft) for x, ft in zip(d['fields'], fts)])
        raise Unmodelled(f'decoded const {d}')

    def operand(self, o):
        if 'Copy' in o:
            v = self.place(o['Copy']).get()
            return self.ex.std.copy_value(v) if isinstance(v, Agg) or hasattr(v, 'items') else v
        if 'Move' in o:
            return self.place(o['Move']).get()
        if 'Constant' in o:
            return self.const(o['Constant'])
        if 'RuntimeChecks' in o:
            # cfg!(debug_assertions / overflow_checks / ub_checks) as seen by generic std code: the dump is built with
            # debug-assertions off and overflow-checks on
            k = o['RuntimeChecks']
            return k in ('OverflowChecks',) if isinstance(k, str) else False
        raise Unmodelled(f'operand {list(o.keys())}')

    def binop(self, op, a, b):
        if op == 'Offset':
            raise Unmodelled('pointer offset')
        if isinstance(a, Num) and isinstance(b, Num):
            if op in ('Eq', 'Ne', 'Lt', 'Le', 'Gt', 'Ge'):
                return num_cmp(op, a, b)
            if op == 'Cmp':
                lt = num_cmp('Lt', a, b); eq = num_cmp('Eq', a, b)
                return self.ex.std.ordering(self.ex, lt, eq)
            if op in ('Div', 'Rem') and not b.concrete:
                pass  # the MIR asserts the divisor before dividing
            op2 = op.replace('Unchecked', '') if op in ('AddUnchecked', 'SubUnchecked', 'MulUnchecked') else op
            r = num_arith(op2, a, b)
            while DIV_AXIOMS:
                self.ex.assume(DIV_AXIOMS.pop())
            return r
        if isinstance(a, bool) or z3.is_bool(a):
            if isinstance(a, bool) and isinstance(b, bool):
                return {'Eq': a == b, 'Ne': a != b, 'BitAnd': a and b, 'BitOr': a or b, 'BitXor': a != b, 'Lt': (not a) and b, 'Le': (not a) or b, 'Gt': a and not b, 'Ge': a or not b}[op]
            za, zb = to_z3_bool(a), to_z3_bool(b)
            if op == 'Eq': return za == zb
            if op in ('Ne', 'BitXor'): return z3.Xor(za, zb)
            if op == 'BitAnd': return z3.And(za, zb)
            if op == 'BitOr': return z3.Or(za, zb)
        if isinstance(a, Ref) and isinstance(b, Ref) and op in ('Eq', 'Ne'):
            same = a.cell is b.cell and a.path == b.path
            return same if op == 'Eq' else not same
        raise Unmodelled(f'binop {op} {type(a).__name__} {type(b).__name__}')

    def rvalue(self, r):
        ex = self.ex
        if 'Use' in r:
            u = r['Use']
            return self.operand(u[0] if isinstance(u, list) else u)
        if 'Ref' in r:
            return self.place(r['Ref'][2])
        if 'AddressOf' in r:
            return self.place(r['AddressOf'][1])
        if 'CopyForDeref' in r:
            return self.place(r['CopyForDeref']).get()
        if 'BinaryOp' in r:
            op, a, b = r['BinaryOp']
            return self.binop(op, self.operand(a), self.operand(b))
        if 'CheckedBinaryOp' in r:
            op, a, b = r['CheckedBinaryOp']
            num_checked.raw = None
            res, ovf = num_checked(op, self.operand(a), self.operand(b))
            t = Agg('tuple', 'checked', 0, [res, ovf])
            if num_checked.raw is not None:
                t.body_key = ('raw', num_checked.raw)      # unwrapped result, valid once the overflow assert passed
            return t
        if 'UnaryOp' in r:
            op, a = r['UnaryOp']
            v = self.operand(a)
            if op == 'Not':
                if isinstance(v, Num):
                    if v.concrete: return Num(wrap_int(~v.e, v.bits, v.signed), v.bits, v.signed)
                    if z3.is_bv(v.e): return Num(~v.e, v.bits, v.signed)
                    return Num((-v.e - 1) if v.signed else ((1 << v.bits) - 1 - v.e), v.bits, v.signed)
                return b_not(v)
            if op == 'Neg':
                if v.concrete: return Num(wrap_int(-v.e, v.bits, v.signed), v.bits, v.signed)
                return Num(-v.e if z3.is_bv(v.e) else z3wrap(-v.e, v.bits, v.signed), v.bits, v.signed)
            if op == 'PtrMetadata':
                tgt = v.get() if isinstance(v, Ref) else v
                if hasattr(tgt, 'items'): return u64(len(tgt.items))
                if hasattr(tgt, 'len') and isinstance(getattr(tgt, 'len'), Num): return tgt.len     # byte strings with a symbolic length (symgen.BytesV and harness slices)
                return UNIT
            raise Unmodelled(f'unary {op}')
        if 'Discriminant' in r:
            v = self.place(r['Discriminant']).get()
            if isinstance(v, Agg) and v.kind == 'coroutine':
                return Num(v.state, 32, False)
            if isinstance(v, Agg):
                t = v.ty
                if isinstance(t, dict) and t['info'].get('k') == 'adt':
                    vs = t['info']['variants']
                    d = vs[v.variant].get('discr') if v.variant < len(vs) else None
                    if d is not None:
                        return Num(int(d), 128, True)
                if t == 'Ordering':
                    return Num(v.variant - 1, 8, True)      # repr(i8): SwitchInt targets spell -1 as 255, compared after wrapping to the operand width
                return Num(v.variant, 128, True)
            if hasattr(v, 'discriminant'):
                return Num(v.discriminant(), 128, True)
            raise Unmodelled(f'discriminant of {type(v).__name__} {v!r}'[:200])
        if 'Cast' in r:
            kind, op, tid = r['Cast']
            v = self.operand(op)
            if kind == 'IntToInt':
                info = ex.ty(self.crate, tid)['info']
                if isinstance(v, bool) or z3.is_bool(v):
                    v = Num(int(v), 8, False) if isinstance(v, bool) else Num(z3.If(v, z3.IntVal(1), z3.IntVal(0)) if ex.intmode else z3.If(v, z3.BitVecVal(1, 8), z3.BitVecVal(0, 8)), 8, False)
                if info.get('k') == 'char':
                    return num_cast(v, 32, False)
                if isinstance(v, Agg):     # fieldless enum -> integer
                    t = v.ty
                    d = t['info']['variants'][v.variant].get('discr') if isinstance(t, dict) else None
                    return Num(wrap_int(int(d) if d is not None else v.variant, info['bits'], info['signed']), info['bits'], info['signed'])
                return num_cast(v, info['bits'], info['signed'])
            if isinstance(kind, dict) and 'PointerCoercion' in kind or kind in ('PtrToPtr', 'Transmute', 'FnPtrToPtr', 'PointerExposeAddress', 'PointerWithExposedProvenance', 'Subtype') or (isinstance(kind, dict)):
                return v
            raise Unmodelled(f'cast {kind}')
        if 'Aggregate' in r:
            kind, ops = r['Aggregate']
            vals = [self.operand(o) for o in ops]
            if kind == 'Tuple':
                return Agg('tuple', 'tuple', 0, vals) if vals else UNIT
            if isinstance(kind, dict):
                if 'Adt' in kind:
                    adt_def, variant, gargs, _uty, active = kind['Adt']
                    t = self.adt_type(adt_def, gargs, getattr(self, 'dest', None))
                    return Agg('adt', t, variant, vals)
                if 'Closure' in kind:
                    a = Agg('closure', self.closure_type('closure', kind['Closure']), 0, vals)
                    a.body_key = self.closure_key(a.ty)
                    return a
                if 'Coroutine' in kind or 'CoroutineClosure' in kind:
                    kk = 'Coroutine' if 'Coroutine' in kind else 'CoroutineClosure'
                    a = Agg('coroutine', self.closure_type('coroutine', kind[kk]), 0, vals)
                    a.vfields = {}; a.state = 0
                    a.body_key = self.closure_key(a.ty)
                    return a
                if 'Array' in kind:
                    return ex.std.VecV(vals)
                if 'RawPtr' in kind:
                    return vals[0]
            raise Unmodelled(f'aggregate {kind}')
        if 'Len' in r:
            v = self.place(r['Len']).get()
            return u64(len(v.items))
        if 'Repeat' in r:
            op, cnt = r['Repeat']
            v = self.operand(op)
            n = self.tyconst_usize(cnt)
            return ex.std.VecV([v] * n)
        if 'NullaryOp' in r:
            return Opaque(('nullary', str(r['NullaryOp'][0])))
        if 'ShallowInitBox' in r:
            return self.operand(r['ShallowInitBox'][0])
        if 'ThreadLocalRef' in r:
            return Ref(Cell(Opaque(('thread_local', str(r['ThreadLocalRef'])))))
        raise Unmodelled(f'rvalue {list(r.keys())}')

    def tyconst_usize(self, c):
        k = c.get('kind', c)
        if isinstance(k, dict) and 'Value' in k:
            by = k['Value'][1]['bytes']
            return int.from_bytes(bytes(b or 0 for b in by), 'little')
        raise Unmodelled(f'array length const {c}')

    def adt_type(self, adt_def, gargs, dest=None):
        """type-table entry of the ADT being constructed (variant names / discriminants / field names)"""
        ex = self.ex
        if dest is not None and not dest['projection']:
            t = ex.ty(self.crate, self.body['locals'][dest['local']]['ty'])
            if t and t['info'].get('k') == 'adt':
                return t
        d = ex.db.defn(self.crate, adt_def)
        h = d['hash'] if d else None
        cand = self.rec.get('_adt_by_hash')
        if cand is None:
            cand = {}
            seen = set()
            def visit(tid, depth=0):
                if tid in seen or depth > 3: return
                seen.add(tid)
                t = ex.ty(self.crate, tid)
                if not t: return
                i = t['info']
                if i.get('k') == 'adt':
                    cand.setdefault(i['def'], []).append(t)
                    for v in i['variants']:
                        for f in v['fields']: visit(f['ty'], depth + 1)
                    for a in i.get('args', []):
                        if isinstance(a, dict) and 'ty' in a: visit(a['ty'], depth + 1)
                elif i.get('k') in ('ref', 'ptr'): visit(i['to'], depth)
                elif i.get('k') == 'tuple':
                    for e in i['elems']: visit(e, depth + 1)
                elif i.get('k') in ('array', 'slice'): visit(i['elem'], depth + 1)
            for l in self.body['locals']: visit(l['ty'])
            self.rec['_adt_by_hash'] = cand
        ts = cand.get(h, [])
        if len(ts) == 1:
            return ts[0]
        if len(ts) > 1:
            want = [a['ty'] for a in self.garg_list(gargs) if a]
            for t in ts:
                have = [a['ty'] for a in t['info'].get('args', []) if isinstance(a, dict) and 'ty' in a]
                if have == want:
                    return t
            return ts[0]
        return {'display': d['name'] if d else '?', 'info': {'k': 'adt?', 'name': d['name'] if d else '?', 'def': h, 'variants': []}}

    def garg_list(self, gargs):
        out = []
        for a in gargs:
            if isinstance(a, dict) and 'Type' in a: out.append({'ty': a['Type']})
            else: out.append(None)
        return out

    def closure_type(self, kind, payload):
        """find the type-table entry of a closure/coroutine aggregate: the destination local has that type"""
        ex = self.ex
        def_id = payload[0]
        dest = getattr(self, 'dest', None)
        if dest is not None and not dest['projection']:
            t = ex.ty(self.crate, self.body['locals'][dest['local']]['ty'])
            if t and t['info'].get('k') in ('closure', 'coroutine'):
                return t
        d = ex.db.defn(self.crate, def_id)
        h = d['hash'] if d else None
        m = self.rec.get('_clo_by_hash')
        if m is None:
            m = {}
            for l in self.body['locals']:
                t = ex.ty(self.crate, l['ty'])
                if t and t['info'].get('k') in ('closure', 'coroutine'):
                    m.setdefault(t['info']['def'], t)
            self.rec['_clo_by_hash'] = m
        t = m.get(h)
        if t is None:
            return {'display': d['name'] if d else '?', 'info': {'k': kind, 'name': d['name'] if d else '?', 'def': h, 'resolved': None}}
        return t

    def closure_key(self, t):
        res = t['info'].get('resolved') if isinstance(t, dict) else None
        return res.get('key') if res else None

    # main loop
    def run(self):
        ex = self.ex; body = self.body
        bb = 0
        blocks = body['blocks']
        while True:
            self.bb = bb
            ex.steps += 1; ex.stats.steps += 1
            if ex.steps > ex.MAX_STEPS:
                raise BoundExceeded(f'step bound exceeded in {self.name}')
            n = self.visits.get(bb, 0) + 1
            self.visits[bb] = n
            if n > ex.loop_bound:
                raise BoundExceeded(f'unwinding bound {ex.loop_bound} exceeded in {self.name} bb{bb}')
            if n > ex.stats.max_unroll: ex.stats.max_unroll = n
            blk = blocks[bb]
            for st in blk['statements']:
                k = st['kind']
                if isinstance(k, str):
                    continue
                if 'Assign' in k:
                    pl, rv = k['Assign']
                    self.dest = pl
                    val = self.rvalue(rv)
                    self.place(pl).set(val)
                elif 'SetDiscriminant' in k:
                    sd = k['SetDiscriminant']
                    r = self.place(sd['place']); v = r.get()
                    if isinstance(v, Agg) and v.kind == 'coroutine':
                        v.state = sd['variant_index']
                    elif isinstance(v, Agg):
                        v.variant = sd['variant_index']
                    else:
                        r.set(Agg('adt', 'partial', sd['variant_index'], []))
                elif 'Intrinsic' in k:
                    intr = k['Intrinsic']
                    if 'Assume' in intr:
                        c = self.operand(intr['Assume'])
                        ex.assume(c if not isinstance(c, bool) else c)
                    else:
                        raise Unmodelled('copy_nonoverlapping')
                else:
                    pass  # StorageLive/Dead, Nop, FakeRead, Retag, PlaceMention, AscribeUserType, Coverage, ConstEvalCounter
            t = blk['terminator']['kind']
            if t == 'Return':
                return self.loc[0].v if not isinstance(self.loc[0].v, Uninit) else UNIT
            if t == 'Unreachable':
                raise Unmodelled(f'reached Unreachable terminator in {self.name} bb{bb}')
            if t in ('Resume', 'Abort'):
                raise Panic(f'{t} in {self.name}', self.where())
            if 'Goto' in t:
                bb = t['Goto']['target']; continue
            if 'Drop' in t:
                self.do_drop(t['Drop'], bb)
                bb = t['Drop']['target']; continue
            if 'SwitchInt' in t:
                v = self.operand(t['SwitchInt']['discr']); tg = t['SwitchInt']['targets']
                if isinstance(v, bool) or z3.is_bool(v):
                    d = ex.branch(v)
                    m = dict((a, b) for a, b in tg['branches'])
                    bb = m.get(1 if d else 0, tg['otherwise']); continue
                if not isinstance(v, Num):
                    raise Unmodelled(f'switch on {type(v).__name__} in {self.name}')
                nxt = tg['otherwise']
                if v.concrete:
                    for val, target in tg['branches']:
                        if wrap_int(int(val), v.bits, v.signed) == v.e:
                            nxt = target; break
                else:
                    for val, target in tg['branches']:
                        if ex.branch(num_cmp('Eq', v, Num(wrap_int(int(val), v.bits, v.signed), v.bits, v.signed))):
                            nxt = target; break
                bb = nxt; continue
            if 'Assert' in t:
                a = t['Assert']; c = self.operand(a['cond'])
                ok = c if a['expected'] else b_not(c)
                if not ex.branch(ok):
                    m = a['msg']
                    raise Panic(f'assertion failed: {self.fmt_assert(m)}', self.where())
                if isinstance(a['msg'], dict) and 'Overflow' in a['msg']:
                    cnd = a['cond'].get('Move') or a['cond'].get('Copy')
                    if cnd and len(cnd['projection']) == 1:
                        tv = self.loc[cnd['local']].v
                        if isinstance(tv, Agg) and tv.ty == 'checked' and isinstance(tv.body_key, tuple):
                            old = tv.fields[0]
                            tv.fields[0] = Num(tv.body_key[1], old.bits, old.signed)
                bb = a['target']; continue
            if 'Call' in t:
                c = t['Call']
                f = self.operand(c['func'])
                args = [self.operand(a) for a in c['args']]
                if isinstance(f, Ref): f = f.get()
                if isinstance(f, FnVal) and len(args) == 2 and isinstance(args[1], Agg) and args[1].kind == 'tuple' \
                        and f.info.get('name', '').endswith(('FnOnce::call_once', 'FnMut::call_mut', 'Fn::call')):
                    # "rust-call" ABI: the argument tuple is spread when the callee resolves to a closure body or a plain fn
                    res = f.info.get('resolved') or {}
                    if res.get('kind') == 'Item':
                        rname = ex.std.strip_generics(res.get('name') or '')
                        if rname.endswith('}') and '{closure#' in rname.rsplit('::', 1)[-1]:
                            args = [args[0]] + list(args[1].fields)        # closure body: (self, spread args)
                        elif not rname.endswith(('::call', '::call_once', '::call_mut')):
                            args = list(args[1].fields)                    # plain fn item called through the Fn traits
                        # otherwise: an `impl Fn* for X` method, which takes (self, tuple) as written
                if ex.trace_calls:
                    print('  ' * ex.depth + f'call {getattr(f, "name", f)}')
                try:
                    if isinstance(f, FnVal):
                        r = ex.call(f, args)
                    elif isinstance(f, Agg) and f.kind == 'closure':
                        r = ex.call_closure(f, args)
                    else:
                        raise Unmodelled(f'indirect call through {type(f).__name__}')
                except Panic as pn:
                    if pn.where is None: pn.where = self.where()
                    raise
                except Unmodelled as u:
                    if ' @ ' not in str(u):
                        raise type(u)(f'{u} @ {self.name} bb{bb} args=[{", ".join(type(x).__name__ for x in args)}]') from None
                    raise
                if c['target'] is None:
                    raise Panic(f'diverging call {getattr(f, "name", "?")} returned', self.where())
                self.place(c['destination']).set(r)
                bb = c['target']; continue
            if 'InlineAsm' in t:
                raise Unmodelled('inline asm')
            raise Unmodelled(f'terminator {t if isinstance(t, str) else list(t.keys())}')

    def fmt_assert(self, m):
        if isinstance(m, dict):
            k = list(m.keys())[0]
            if k == 'Overflow':
                return f'attempt to {m[k][0].lower()} with overflow'
            if k == 'BoundsCheck':
                return 'index out of bounds'
            return k
        return str(m)

    def do_drop(self, d, bb):
        ex = self.ex
        info = (self.rec.get('drops') or {}).get(str(bb))
        if not info or not ex.drop_types:
            return
        if not any(re.search(p, info['name']) for p in ex.drop_types):
            return
        ref = self.place(d['place'])
        v = ref.get()
        if isinstance(v, Uninit):
            return
        # a user model of the drop glue itself (`std::ptr::drop_in_place::<T>`) takes precedence over the glue's body
        for rx, fn in ex.user_models:
            if rx.fullmatch(info['name']):
                r = fn(ex, info['name'], [ref])
                if r is not NotImplemented:
                    ex.stats.models[rx.pattern] = ex.stats.models.get(rx.pattern, 0) + 1
                    return
        ex.call_key(info['key'], [ref], info['name'])


def canon(s):
    """canonical instance name: definition paths, with core/alloc spelled std"""
    if not s: return None
    return re.sub(r'\b(core|alloc)::', 'std::', s.split(' - shim')[0])


def M_deref(v):
    while isinstance(v, Ref):
        v = v.get()
    return v


def explore(ex, body, max_paths=100000, budget_s=None):
    """run `body(ex)` over all feasible paths. Returns list of (kind, value, pc, log) with kind in ok|panic."""
    work = [[]]
    results = []
    t0 = time.time()
    while work:
        if len(results) > max_paths:
            raise BoundExceeded('path bound exceeded')
        if budget_s is not None and time.time() - t0 > budget_s:
            raise BoundExceeded(f'time budget {budget_s}s exceeded after {len(results)} paths')
        ex.reset_path(work.pop())
        out = None
        try:
            out = ('ok', body(ex))
        except Panic as p:
            out = ('panic', (p.msg, p.where or (ex.callstack[-1] if ex.callstack else '?')))
        except Infeasible:
            out = None
        work.extend(ex.pending)
        if out is not None and (not ex.eager or ex.pc):
            # assumptions added after the last branch point are not yet known to be consistent
            if not ex.check():
                out = None
        if out is None:
            ex.stats.infeasible += 1
            continue
        ex.stats.paths += 1
        results.append((out[0], out[1], list(ex.pc), list(ex.log)))
    return results


XCHECK = dict(enabled=bool(os.environ.get('VERIF_CROSSCHECK')), budget=int(os.environ.get('VERIF_CROSSCHECK_MAX', '150')), every=int(os.environ.get('VERIF_CROSSCHECK_EVERY', '7')),
              seen=0, checked=0, agreed=0, cvc5_unknown=0, disagreed=0, cvc5_s=0.0)


def cvc5_decide(pc, extra, tlimit_ms=20000):
    """re-decide pc ∧ extra with cvc5 1.0 (SMT-LIB2 text produced by z3): 'sat' | 'unsat' | 'unknown'"""
    import subprocess, tempfile
    s = z3.Solver()
    for c in pc: s.add(c)
    if extra is not None: s.add(to_z3_bool(extra))
    smt = '(set-logic ALL)\n' + s.to_smt2()
    t0 = time.time()
    try:
        with tempfile.NamedTemporaryFile('w', suffix='.smt2', delete=True) as f:
            f.write(smt); f.flush()
            r = subprocess.run(['cvc5', '--lang', 'smt2', f'--tlimit={tlimit_ms}', f.name], capture_output=True, text=True, timeout=tlimit_ms / 1000 + 10)
    except Exception:
        return 'unknown'
    finally:
        XCHECK['cvc5_s'] += time.time() - t0
    out = r.stdout.strip().splitlines()
    if not out or any('(error' in l for l in out): return 'unknown'
    return out[0].strip() if out[0].strip() in ('sat', 'unsat') else 'unknown'


def solve(pc, extra, timeout_ms=60000):
    """sat/unsat of pc ∧ extra; returns ('sat', model) | ('unsat', None) | ('unknown', reason).
    With VERIF_CROSSCHECK set (thorough tier) a sample of the final queries is re-decided by cvc5; a disagreement makes
    the answer 'unknown' (the obligation becomes inconclusive), a cvc5 time-out / error is only counted."""
    s = z3.Solver(); s.set('timeout', timeout_ms)
    for c in pc: s.add(c)
    if extra is not None: s.add(to_z3_bool(extra))
    r = s.check()
    res = ('sat', s.model()) if r == z3.sat else (('unsat', None) if r == z3.unsat else ('unknown', s.reason_unknown()))
    if XCHECK['enabled'] and res[0] != 'unknown':
        XCHECK['seen'] += 1
        if XCHECK['checked'] < XCHECK['budget'] and XCHECK['seen'] % XCHECK['every'] == 1:
            XCHECK['checked'] += 1
            other = cvc5_decide(pc, extra)
            if other == 'unknown': XCHECK['cvc5_unknown'] += 1
            elif other == res[0]: XCHECK['agreed'] += 1
            else:
                XCHECK['disagreed'] += 1
                return 'unknown', f'solver disagreement: z3 {res[0]}, cvc5 {other}'
    return res
