"""Shared driver code: MIR dump freshness, obligations, evidence, known findings, exit codes.

Exit codes of a check: 0 = every obligation of the tier discharged; 1 = a violation that reproduces against the
real crates (prints `VIOLATION property=<id> replay=<path>`); 2 = inconclusive (unmodelled call, bound hit, solver
unknown / disagreement, harness out of date, counterexample that does not reproduce) — never reported as a pass.
"""
import fcntl, hashlib, json, os, re, subprocess, sys, time

VERIF = os.path.dirname(os.path.dirname(os.path.abspath(__file__)))     # the /verif tree this file lives in (a vp-run snapshot uses its own)
os.environ.setdefault('VERIF_ROOT', VERIF)
# Developer overrides (used only to run a check against a scratch worktree carrying a seeded change, in parallel with
# other work; the registered commands never set them): VERIF_REPO, VERIF_TARGET, VERIF_OUT (evidence/ and replay/).
REPO = os.environ.get('VERIF_REPO', '/repo')
NODE = REPO + '/node'
TARGET = os.environ.get('VERIF_TARGET', VERIF + '/target')
OUT = os.environ.get('VERIF_OUT', VERIF)
ALT = REPO != '/repo'
if ALT:
    # Kani harness crates name /repo in #[path] attributes and path dependencies: work on a copy with the paths rewritten
    import shutil as _sh
    _kd = TARGET + '/kani-src'
    if os.path.isdir(_kd): _sh.rmtree(_kd)
    _sh.copytree(VERIF + '/kani', _kd, ignore=_sh.ignore_patterns('target', 'gen'))
    for _r, _d, _f in os.walk(_kd):
        for _n in _f:
            if _n.endswith(('.rs', '.toml')):
                _p = os.path.join(_r, _n); _t = open(_p).read()
                if '/repo/' in _t: open(_p, 'w').write(_t.replace('/repo/', REPO + '/'))
    os.environ['VERIF_KANI_DIR'] = _kd
    os.environ['VERIF_REPO_LOCK'] = NODE + '/Cargo.lock'
MIR_PREFIX = TARGET + '/mir/out'
KNOWN = VERIF + '/known_findings.json'


def log(*a):
    print(*a, file=sys.stderr, flush=True)


def sh(cmd, **kw):
    return subprocess.run(cmd, shell=isinstance(cmd, str), capture_output=True, text=True, **kw)


def nightly_sysroot():
    return sh('rustc +nightly --print sysroot').stdout.strip()


def source_hash(exts=('.rs', '.toml', '.proto', '.lock')):
    h = hashlib.sha256()
    for root, dirs, files in os.walk(NODE):
        dirs[:] = sorted(d for d in dirs if d not in ('target', '.git'))
        for f in sorted(files):
            if f.endswith(exts):
                p = os.path.join(root, f)
                h.update(p.encode())
                with open(p, 'rb') as fh:
                    h.update(fh.read())
    return h.hexdigest()


def build_mirdump():
    src = VERIF + '/mirdump/mirdump.rs'
    out = TARGET + '/mirdump'
    os.makedirs(TARGET, exist_ok=True)
    if os.path.exists(out) and os.path.getmtime(out) >= os.path.getmtime(src):
        return out
    r = sh(f'rustc +nightly -O --edition 2021 {src} -o {out}.tmp')
    if r.returncode != 0:
        raise RuntimeError('building mirdump failed:\n' + r.stderr[-3000:])
    os.replace(out + '.tmp', out)
    return out


def ensure_mir(force=False):
    """regenerate the MIR dump from /repo's current working tree (skipped only if no source file changed)"""
    os.makedirs(TARGET + '/mir', exist_ok=True)
    lock = open(TARGET + '/mir.lock', 'w')
    fcntl.flock(lock, fcntl.LOCK_EX)
    try:
        t0 = time.time()
        h = source_hash()
        stamp = TARGET + '/mir/STAMP'
        binp = build_mirdump()
        bh = hashlib.sha256(open(binp, 'rb').read()).hexdigest()[:16]
        want = h + ':' + bh
        if not force and os.path.exists(stamp) and open(stamp).read().strip() == want:
            return dict(regenerated=False, source_hash=h, wall_s=round(time.time() - t0, 1))
        env = dict(os.environ, CARGO_NET_OFFLINE='true', LD_LIBRARY_PATH=nightly_sysroot() + '/lib', RUSTC_WORKSPACE_WRAPPER=binp,
                   MIRDUMP_OUT=MIR_PREFIX, RUSTFLAGS='-C overflow-checks=on -C debug-assertions=off -Zalways-encode-mir', CARGO_TERM_COLOR='never')
        env.pop('RUSTUP_TOOLCHAIN', None)
        # A crate's dump is rewritten whenever cargo re-checks it (it and all its dependants when a source changes);
        # dumps of untouched crates stay valid. If the dumper itself changed or a dump is missing, force all of them.
        old = open(stamp).read().strip().split(':') if os.path.exists(stamp) else ['', '']
        missing = any(not os.path.exists(f'{MIR_PREFIX}.{c}.jsonl') for c in NEED)
        if force or missing or len(old) != 2 or old[1] != bh:
            fp = TARGET + '/mirbuild/debug/.fingerprint'
            if os.path.isdir(fp):
                for d in os.listdir(fp):
                    if d.startswith('zksync_'):
                        sh(['rm', '-rf', os.path.join(fp, d)])
        r = subprocess.run(['cargo', '+nightly', 'check', '--offline', '-p', 'zksync_consensus_bft', '-p', 'zksync_consensus_network', '-p', 'zksync_consensus_engine',
                            '--lib', '--target-dir', TARGET + '/mirbuild'], cwd=NODE, env=env, capture_output=True, text=True)
        if r.returncode != 0:
            err = '\n'.join(l for l in r.stderr.splitlines() if 'internal compiler error' not in l)
            raise BuildFailed('cargo check of /repo/node failed:\n' + err[-4000:])
        dumped = [l for l in r.stderr.splitlines() if l.startswith('mirdump: ')]
        for c in NEED:
            if not os.path.exists(f'{MIR_PREFIX}.{c}.jsonl'):
                raise RuntimeError(f'mirdump produced no output for {c}:\n' + r.stderr[-2000:])
        open(stamp, 'w').write(want)
        return dict(regenerated=True, source_hash=h, crates=dumped, wall_s=round(time.time() - t0, 1))
    finally:
        fcntl.flock(lock, fcntl.LOCK_UN)


NEED = ['zksync_concurrency', 'zksync_consensus_roles', 'zksync_consensus_bft', 'zksync_consensus_network', 'zksync_consensus_engine', 'zksync_protobuf', 'zksync_consensus_crypto']


class BuildFailed(Exception):
    pass


# ------------------------------------------------------------------------------------------------ obligations
class Obligation:
    """one solver-decided claim. status: discharged | violated | inconclusive | known"""

    def __init__(self, name, status, detail='', **kw):
        self.name = name; self.status = status; self.detail = detail; self.extra = kw

    def to_json(self):
        d = dict(name=self.name, status=self.status)
        if self.detail: d['detail'] = self.detail
        d.update(self.extra)
        return d


class Violation:
    def __init__(self, prop, key, text, replay_path=None, reproduced=None, witness=None):
        self.prop = prop; self.key = key; self.text = text; self.replay_path = replay_path; self.reproduced = reproduced; self.witness = witness


def load_known():
    if not os.path.exists(KNOWN):
        return []
    return json.load(open(KNOWN)).get('findings', [])


def match_known(prop, key):
    """a known finding suppresses exactly the violation whose role key it names (regex on the key string)"""
    for f in load_known():
        if f.get('property') == prop and f.get('status') == 'known' and re.fullmatch(f['match'], key):
            return f
    return None


class Report:
    def __init__(self, prop, tier, seed, level='model_checking'):
        self.prop = prop; self.tier = tier; self.seed = seed; self.level = level
        self.t0 = time.time()
        self.obligations = []
        self.violations = []
        self.inconclusive = []
        self.known_hits = []
        self.functions = {}
        self.models = {}
        self.samples = []
        self.assumptions = []
        self.trusted = []
        self.bounds = {}
        self.paths = 0; self.queries = 0; self.solver_s = 0.0; self.steps = 0; self.nontrivial = 0
        self.replayed = 0
        self.extra = {}
        self.engines = []

    def add(self, ob):
        self.obligations.append(ob)
        if ob.status == 'inconclusive':
            self.inconclusive.append(ob)

    def absorb_stats(self, stats):
        self.paths += stats.paths; self.queries += stats.queries; self.solver_s += stats.solver_s; self.steps += stats.steps
        for k, v in stats.functions.items(): self.functions[k] = self.functions.get(k, 0) + v
        for k, v in stats.models.items(): self.models[k] = self.models.get(k, 0) + v

    def violation(self, v):
        k = match_known(self.prop, v.key)
        if k is not None:
            self.known_hits.append((k, v))
        else:
            self.violations.append(v)

    def finish(self):
        wall = time.time() - self.t0
        n_ob = len(self.obligations)
        n_dis = sum(1 for o in self.obligations if o.status in ('discharged',))
        status = 0
        real = [v for v in self.violations if v.reproduced is not False]
        unrepro = [v for v in self.violations if v.reproduced is False]
        for k, v in self.known_hits:
            print(f'KNOWN-FINDING: property={self.prop} {k.get("id", "")} {k.get("text", v.text)}')
        for i, v in enumerate(real):
            if not v.replay_path:
                # no executable replay for this class of counterexample: the solver witness is kept as a file
                os.makedirs(OUT + '/replay', exist_ok=True)
                v.replay_path = f'{OUT}/replay/{self.prop.lower()}_{i}.witness.txt'
                with open(v.replay_path, 'w') as f:
                    f.write(f'property {self.prop}\nviolation {v.key}\n{v.text}\n\nsolver witness (symbolic inputs of the failing path):\n{v.witness or "(in the text above)"}\n')
            print(f'VIOLATION property={self.prop} replay={v.replay_path}')
            print(f'  {v.key}: {v.text}')
        if real:
            status = 1
        elif unrepro or self.inconclusive:
            status = 2
            for v in unrepro:
                print(f'INCONCLUSIVE property={self.prop}: solver counterexample did not reproduce against the real crates ({v.key}); engine/model error, nothing claimed')
            for o in self.inconclusive[:10]:
                print(f'INCONCLUSIVE property={self.prop}: {o.name}: {o.detail[:400]}')
        ev = dict(
            property_id=self.prop, tier=self.tier, seed=self.seed, level=self.level, wall_s=round(wall, 2),
            violations=len(real),
            coverage=dict(
                evaluations=max(self.paths, n_ob, 1),
                distinct_nontrivial=self.nontrivial,
                rule='a case is one feasible symbolic path of the listed real functions (MIR executed with symbolic inputs) or one Kani harness; it is non-trivial if it reaches the point where the property assertion is evaluated (not an early input-rejection path); counted per distinct path condition',
                states=max(self.paths, 1), transitions=max(self.steps, 1), traces_validated_against_impl=self.replayed,
                obligations=n_ob, discharged=n_dis,
                exhaustive=False,
                samples=self.samples[:12] or ['(none)'],
                solver_queries=self.queries, solver_time_s=round(self.solver_s, 2),
                functions_encoded=sorted(self.functions, key=lambda k: -self.functions[k])[:60],
                functions_encoded_total=len(self.functions),
                native_models_used=sorted(self.models)[:80],
                bounds=self.bounds,
                engines=self.engines,
                obligations_detail=[o.to_json() for o in self.obligations][:200],
                known_findings_hit=[dict(id=k.get('id'), key=v.key) for k, v in self.known_hits],
                trusted_base=self.trusted,
                explanation=self.extra.get('explanation', ''),
                cvc5_crosscheck=_xcheck_stats(),
                **{k: v for k, v in self.extra.items() if k != 'explanation'},
            ),
            assumptions=self.assumptions,
            exit_status=status,
        )
        try:        # full list of executed function bodies (the evidence keeps the 60 most used): input of tools/coverage_gap.py
            os.makedirs(TARGET + '/coverage', exist_ok=True)
            with open(f'{TARGET}/coverage/{self.prop}.{self.tier}.funcs.txt', 'w') as f:
                for k in sorted(self.functions): f.write(f'{self.functions[k]}\t{k}\n')
        except Exception:
            pass
        os.makedirs(OUT + '/evidence', exist_ok=True)
        with open(f'{OUT}/evidence/{self.prop}.json', 'w') as f:
            json.dump(ev, f, indent=1, default=str)
        print(f'{self.prop} [{self.tier}] obligations={n_ob} discharged={n_dis} violations={len(real)} known={len(self.known_hits)} inconclusive={len(self.inconclusive) + len(unrepro)} paths={self.paths} queries={self.queries} solver={self.solver_s:.1f}s wall={wall:.1f}s -> exit {status}')
        return status


def _xcheck_stats():
    try:
        from mirsym import core
        x = core.XCHECK
        return dict(enabled=x['enabled'], final_queries_seen=x['seen'], re_decided_by_cvc5=x['checked'], agreed=x['agreed'], cvc5_unknown_or_timeout=x['cvc5_unknown'], disagreed=x['disagreed'], cvc5_time_s=round(x['cvc5_s'], 1),
                    note='sampled (every 7th final query of the main process, at most 150); worker processes of parallel sweeps keep their own counters (not aggregated)')
    except Exception:
        return None


# ------------------------------------------------------------------------------------------------ parallel sweeps
def parallel_map(fn, items, workers=None):
    """run fn(item) in forked worker processes (results must be picklable: no z3 objects); preserves order"""
    import multiprocessing as mp
    workers = workers or min(14, max(1, (os.cpu_count() or 4) - 2))
    if len(items) <= 1 or workers <= 1:
        return [fn(x) for x in items]
    ctx = mp.get_context('fork')
    with ctx.Pool(workers, maxtasksperchild=8) as pool:
        return pool.map(fn, items, chunksize=1)


def stats_dict(stats):
    return dict(paths=stats.paths, queries=stats.queries, solver_s=stats.solver_s, steps=stats.steps, functions=dict(stats.functions), models=dict(stats.models))


def absorb_stats_dict(rep, d):
    rep.paths += d['paths']; rep.queries += d['queries']; rep.solver_s += d['solver_s']; rep.steps += d['steps']
    for k, v in d['functions'].items(): rep.functions[k] = rep.functions.get(k, 0) + v
    for k, v in d['models'].items(): rep.models[k] = rep.models.get(k, 0) + v
