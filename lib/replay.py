"""Replay of solver counterexamples against the real crates: a generated Rust integration test in
/verif/replay-crate (path dependencies on /repo/node) asserts the property on the concrete witness; the
violation is reported only if that test FAILS (dev profile, and release profile where stated)."""
import os, re, shutil, subprocess, time
from framework import VERIF, NODE, TARGET, OUT, ALT, log

CRATE = (TARGET if ALT else VERIF) + '/replay-crate'

CARGO_TOML = '''[package]
name = "verif_replay"
version = "0.0.0"
edition = "2021"

[lib]
path = "src/lib.rs"

[dependencies]
zksync_concurrency = { path = "/repo/node/libs/concurrency" }
zksync_consensus_crypto = { path = "/repo/node/libs/crypto" }
zksync_consensus_roles = { path = "/repo/node/libs/roles" }
zksync_consensus_utils = { path = "/repo/node/libs/utils" }
zksync_protobuf = { path = "/repo/node/libs/protobuf" }
zksync_consensus_engine = { path = "/repo/node/libs/engine" }
zksync_consensus_network = { path = "/repo/node/components/network" }
zksync_consensus_bft = { path = "/repo/node/components/bft" }
anyhow = "1"
rand = "0.8"
tokio = { version = "1", features = ["full"] }
bit-vec = "0.6"
assert_matches = "1.5.0"
async-trait = "0.1"
num-bigint = "0.4"
prost = "0.12"
prost-reflect = "0.12"
prost-types = "0.12"
time = "0.3"

[profile.dev]
panic = "unwind"

[workspace]
'''


def ensure_crate():
    os.makedirs(CRATE + '/src', exist_ok=True)
    os.makedirs(CRATE + '/tests', exist_ok=True)
    os.makedirs(CRATE + '/.cargo', exist_ok=True)
    with open(CRATE + '/Cargo.toml', 'w') as f: f.write(CARGO_TOML.replace('/repo/node', NODE))
    with open(CRATE + '/src/lib.rs', 'w') as f: f.write('// replay support crate (generated tests live in tests/)\n')
    with open(CRATE + '/.cargo/config.toml', 'w') as f: f.write('[net]\noffline = true\n')
    shutil.copy(NODE + '/Cargo.lock', CRATE + '/Cargo.lock')


def run_replay(name, rust_src, release=False, timeout=1500, rustflags=None):
    """returns dict(reproduced: bool|None, path, output). reproduced=True iff the generated test fails."""
    ensure_crate()
    os.makedirs(OUT + '/replay', exist_ok=True)
    keep = f'{OUT}/replay/{name}.rs'
    with open(keep, 'w') as f: f.write(rust_src)
    # only this test in the crate: stale generated tests are removed
    for fn in os.listdir(CRATE + '/tests'):
        os.remove(os.path.join(CRATE, 'tests', fn))
    shutil.copy(keep, f'{CRATE}/tests/{name}.rs')
    env = dict(os.environ, CARGO_NET_OFFLINE='true', CARGO_TERM_COLOR='never', RUST_BACKTRACE='0')
    env.pop('RUSTUP_TOOLCHAIN', None)
    tdir = TARGET + '/replay'
    if rustflags:
        env['RUSTFLAGS'] = rustflags; tdir = TARGET + '/replay-hooks'
    cmd = ['cargo', 'test', '--offline', '--test', name, '--target-dir', tdir]
    if release: cmd.append('--release')
    cmd += ['--', '--nocapture', '--test-threads', '1']
    t0 = time.time()
    try:
        r = subprocess.run(cmd, cwd=CRATE, env=env, capture_output=True, text=True, timeout=timeout)
    except subprocess.TimeoutExpired:
        return dict(reproduced=None, path=keep, output='replay build/run timed out', wall_s=time.time() - t0)
    # the test's own output (stdout) last and never crowded out by compiler warnings of a first build (stderr)
    out = r.stderr[-6000:] + '\n' + r.stdout[-6000:]
    if 'error: could not compile' in out or 'error[E' in out:
        return dict(reproduced=None, path=keep, output='replay test does not compile:\n' + r.stderr[-3000:], wall_s=time.time() - t0)
    m = re.search(r'test result: (\w+)\. (\d+) passed; (\d+) failed', out)
    if not m:
        # the process may have aborted (panic = abort in a dependency profile) -> treat as failure of the test
        repro = r.returncode != 0 and ('panicked at' in out or 'SIGABRT' in out or 'process abort' in out)
        return dict(reproduced=True if repro else None, path=keep, output=out[-8000:], wall_s=time.time() - t0)
    return dict(reproduced=int(m.group(3)) > 0, path=keep, output=out[-8000:], wall_s=time.time() - t0)
