#!/usr/bin/env python3
"""check driver: regenerates the MIR dump from /repo's working tree, runs the property module, writes evidence."""
import argparse, importlib, os, sys, time, traceback
sys.path.insert(0, os.path.dirname(os.path.abspath(__file__)))
sys.setrecursionlimit(20000)
import framework as F


def main():
    ap = argparse.ArgumentParser()
    ap.add_argument('prop')
    ap.add_argument('--tier', default=os.environ.get('VERIF_TIER', 'quick'), choices=['quick', 'thorough'])
    ap.add_argument('--no-dump', action='store_true', help='debug: reuse the existing MIR dump')
    a = ap.parse_args()
    seed = int(os.environ.get('VERIF_SEED', '0') or 0)
    if a.tier == 'thorough': os.environ.setdefault('VERIF_CROSSCHECK', '1')     # sampled cvc5 re-decision of final queries (mirsym.core.solve)
    prop = a.prop.upper()
    rep = F.Report(prop, a.tier, seed)
    mod = importlib.import_module('props.' + prop.lower())
    need_mir = getattr(mod, 'NEEDS_MIR', True)
    try:
        db = None
        if need_mir:
            if not a.no_dump:
                info = F.ensure_mir()
                rep.extra['mir_dump'] = info
            from mirsym.db import DB
            db = DB(F.MIR_PREFIX)
        mod.run(rep, db, a.tier, seed)
    except F.BuildFailed as e:
        rep.add(F.Obligation('build', 'inconclusive', str(e)))
    except Exception as e:
        rep.add(F.Obligation('driver', 'inconclusive', f'{type(e).__name__}: {e}\n' + traceback.format_exc()[-1500:]))
    sys.exit(rep.finish())


if __name__ == '__main__':
    try:
        main()
    except SystemExit:
        raise
    except BaseException as e:          # a crash of the machinery itself is never a verdict about the code: exit 2, no VIOLATION line
        print(f'INCONCLUSIVE: the check driver failed before reaching a verdict: {type(e).__name__}: {e}')
        traceback.print_exc()
        sys.exit(2)
