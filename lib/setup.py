#!/usr/bin/env python3
"""MANIFEST.setup_cmd: build the MIR front end and produce the first dump (offline, from files on disk only)."""
import os, sys
sys.path.insert(0, os.path.dirname(os.path.abspath(__file__)))
import framework as F
F.build_mirdump()
info = F.ensure_mir()
print('mirdump ready:', info.get('regenerated'), info.get('wall_s'), 's')
import z3
print('z3', z3.get_version_string())
